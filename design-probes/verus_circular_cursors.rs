use vstd::prelude::*;
use vstd::arithmetic::div_mod::*;
verus! {

pub struct CircularBuf {
    write: usize,
    read: usize,
    read_size: usize,
    write_size: usize,
    closed: bool,
    data: Vec<u8>,
}

impl CircularBuf {
    pub closed spec fn cap(&self) -> int { self.data.len() as int }
    pub closed spec fn abs_len(&self) -> int {
        if self.write >= self.read { self.write - self.read } else { 2 * self.cap() - self.read + self.write }
    }
    pub closed spec fn wf(&self) -> bool {
        &&& self.cap() > 0
        &&& 3 * self.cap() <= usize::MAX
        &&& self.write < 2 * self.cap()
        &&& self.read < 2 * self.cap()
        &&& 0 <= self.abs_len() <= self.cap()
    }
    pub closed spec fn is_closed_spec(&self) -> bool { self.closed }
    pub closed spec fn rs(&self) -> int { self.read_size as int }
    pub closed spec fn ws(&self) -> int { self.write_size as int }

    // ---- verbatim bodies below ----
    pub fn len(&self) -> (r: usize)
        requires self.wf(),
        ensures r == self.abs_len(),
    {
        if self.write >= self.read {
            proof { lemma_small_mod((self.write - self.read) as nat, (2 * self.cap()) as nat); }
            self.wrap(self.write - self.read)
        } else {
            proof {
                let c = self.cap();
                assert(self.read - self.write >= c);
                assert(self.write < c && self.read >= c);
                lemma_small_mod(self.write as nat, c as nat);
                lemma_mod_sub_multiples_vanish(self.read as int, c);
                lemma_small_mod((self.read - c) as nat, c as nat);
                assert((self.read as int) % c == self.read - c);
            }
            self.capacity() + self.mask(self.write) - self.mask(self.read)
        }
    }

    pub fn can_read(&self) -> (r: bool)
        requires self.wf(),
        ensures r == ((self.is_closed_spec() && self.abs_len() > 0) || self.abs_len() >= self.rs()),
    {
        (self.closed && !self.is_empty()) || self.len() >= self.read_size
    }

    pub fn can_write(&self) -> (r: bool)
        requires self.wf(),
        ensures r == (!self.is_closed_spec() && self.cap() - self.abs_len() >= self.ws()),
    {
        !self.closed && self.remaining() >= self.write_size
    }

    pub fn capacity(&self) -> (r: usize)
        ensures r == self.cap(),
    {
        self.data.len()
    }

    fn is_empty(&self) -> (r: bool)
        requires self.wf(),
        ensures r == (self.abs_len() == 0),
    {
        self.read == self.write
    }

    fn remaining(&self) -> (r: usize)
        requires self.wf(),
        ensures r == self.cap() - self.abs_len(),
    {
        self.capacity() - self.len()
    }

    fn mask(&self, val: usize) -> (r: usize)
        requires self.cap() > 0,
        ensures r == (val as int) % self.cap(),
    {
        val % self.data.len()
    }

    fn wrap(&self, val: usize) -> (r: usize)
        requires self.cap() > 0, 2 * self.cap() <= usize::MAX,
        ensures r == (val as int) % (2 * self.cap()),
    {
        val % (self.data.len() * 2)
    }

    fn inc(&self, val: usize, delta: usize) -> (r: usize)
        requires self.cap() > 0, 2 * self.cap() <= usize::MAX, val + delta <= usize::MAX,
        ensures r == ((val + delta) as int) % (2 * self.cap()),
    {
        self.wrap(val + delta)
    }

    pub closed spec fn abs_len_of(&self, read: int, write: int) -> int {
        if write >= read { write - read } else { 2 * self.cap() - read + write }
    }

    // cursor update used by Next::write : self.write = self.inc(self.write, ws)
    fn advance_write(&self, delta: usize) -> (w: usize)
        requires self.wf(), delta <= self.cap() - self.abs_len(),
        ensures w < 2 * self.cap(),
                self.abs_len_of(self.read as int, w as int) == self.abs_len() + delta,
    {
        proof {
            let c = self.cap();
            let s = self.write + delta;
            if s < 2 * c { lemma_small_mod(s as nat, (2 * c) as nat); }
            else {
                lemma_mod_sub_multiples_vanish(s as int, 2 * c);
                lemma_small_mod((s - 2 * c) as nat, (2 * c) as nat);
            }
        }
        self.inc(self.write, delta)
    }

    // cursor update used by take : self.read = self.inc(self.read, delta)
    fn advance_read(&self, delta: usize) -> (r: usize)
        requires self.wf(), delta <= self.abs_len(),
        ensures r < 2 * self.cap(),
                self.abs_len_of(r as int, self.write as int) == self.abs_len() - delta,
    {
        proof {
            let c = self.cap();
            let s = self.read + delta;
            if s < 2 * c { lemma_small_mod(s as nat, (2 * c) as nat); }
            else {
                lemma_mod_sub_multiples_vanish(s as int, 2 * c);
                lemma_small_mod((s - 2 * c) as nat, (2 * c) as nat);
            }
        }
        self.inc(self.read, delta)
    }
}

}
fn main() {}
