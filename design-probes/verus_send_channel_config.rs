use vstd::prelude::*;
use vstd::arithmetic::power2::*;
use vstd::arithmetic::div_mod::*;
use vstd::arithmetic::mul::*;
verus! {

pub open spec fn is_pow2(n: int) -> bool { exists|e: nat| n == pow2(e) }

fn min(a: usize, b: usize) -> (r: usize) ensures r == if a <= b { a } else { b } { if a <= b { a } else { b } }

// contract of non_zero_prev_power_of_two (discharged on the real fn by engine K)
#[verifier::external_body]
fn non_zero_prev_power_of_two(target: usize) -> (r: usize)
    ensures is_pow2(r as int), r >= 1, r <= (if target == 0 { 1 } else { target as int }),
{ unimplemented!() }

proof fn lemma_pow2_divides(m: int, a: int)
    requires is_pow2(m), is_pow2(a), m <= a,
    ensures a % m == 0, m > 0,
{
    let i = choose|e: nat| m == pow2(e);
    let k = choose|e: nat| a == pow2(e);
    lemma_pow2_pos(i);
    if k < i { lemma_pow2_strictly_increases(k, i); }
    assert(i <= k);
    lemma_pow2_adds(i, (k - i) as nat);
    assert(a == m * pow2((k - i) as nat));
    lemma_mod_multiples_basic(pow2((k - i) as nat) as int, m);
    assert(pow2((k - i) as nat) * m == m * pow2((k - i) as nat)) by(nonlinear_arith);
}

// woven from SendChannelConfig::new_with; substitutions per DESIGN §5 C13
fn new_with(active: usize, read_size_cfg: usize, indeterminate: bool, record_size: usize) -> (this: (usize, usize, usize))
    requires record_size > 0, read_size_cfg > 0, is_pow2(active as int), active * record_size <= usize::MAX,
    ensures this.0 == active * record_size, this.1 == record_size,
            this.2 > 0, this.0 % this.2 == 0, this.2 % record_size == 0, this.2 <= this.0,
            indeterminate ==> this.2 == record_size,
{
    assert(record_size > 0);

    let total_capacity = active * record_size;
    let read_size_multiplier = {
        let target = read_size_cfg / record_size;
        non_zero_prev_power_of_two(target)
    };
    proof {
        lemma_pow2_pos(choose|e: nat| active as int == pow2(e));
        assert(active >= 1);
        assert(total_capacity >= record_size) by(nonlinear_arith) requires total_capacity == active * record_size, active >= 1, record_size > 0;
        // multiplier * record_size does not overflow: multiplier <= max(1, cfg / rs)
        let t = read_size_cfg / record_size;
        lemma_fundamental_div_mod(read_size_cfg as int, record_size as int);
        assert(record_size * t <= read_size_cfg) by(nonlinear_arith) requires read_size_cfg == record_size * t + read_size_cfg % record_size, read_size_cfg % record_size >= 0;
        assert(read_size_multiplier * record_size <= (if t == 0 { record_size as int } else { read_size_cfg as int })) by(nonlinear_arith)
            requires read_size_multiplier <= (if t == 0 { 1 } else { t as int }), record_size * t <= read_size_cfg, record_size > 0, read_size_multiplier >= 1;
    }
    let this = (
        total_capacity,
        record_size,
        if indeterminate { record_size } else { min(total_capacity, read_size_multiplier * record_size) },
    );
    proof {
        let m = read_size_multiplier as int;
        let rs = record_size as int;
        let a = active as int;
        if indeterminate {
            lemma_mod_multiples_basic(a, rs);
            lemma_mod_self_0(rs);
        } else if m * rs >= a * rs {
            lemma_mod_self_0(a * rs);
            lemma_mod_multiples_basic(a, rs);
        } else {
            assert(m < a) by(nonlinear_arith) requires m * rs < a * rs, rs > 0;
            lemma_pow2_divides(m, a);
            let j = a / m;
            lemma_fundamental_div_mod(a, m);
            assert(a == m * j);
            assert(a * rs == j * (m * rs)) by(nonlinear_arith) requires a == m * j;
            assert(m * rs > 0) by(nonlinear_arith) requires m >= 1, rs > 0;
            lemma_mod_multiples_basic(j, m * rs);
            lemma_mod_multiples_basic(m, rs);
        }
    }

    assert(this.0 >= record_size * active) by(nonlinear_arith) requires this.0 == active * record_size;
    assert(0 == this.0 % this.2);

    this
}

}
fn main() {}
