use vstd::prelude::*;
use vstd::arithmetic::div_mod::*;
use vstd::arithmetic::mul::*;
verus! {

pub spec const P: int = 2305843009213693951;

pub open spec fn divides(d: int, n: int) -> bool { d != 0 && n % d == 0 }

// trusted mathematical fact (Mersenne prime M61)
pub open spec fn prime(p: int) -> bool { p > 1 && forall|d: int| 1 < d < p ==> !#[trigger] divides(d, p) }

// congruence with explicit witness
pub open spec fn cong(x: int, y: int, k: int) -> bool { x == y + k * P }

fn invert(a: u128) -> (res: u128)
    requires 0 < a < P, prime(P),
    ensures res < P, ((res as int) * (a as int)) % P == 1,
{
    let mut t = 0u128;
    let mut newt = 1u128;
    let mut r: u128 = 2305843009213693951u128;
    let mut newr = a;
    let mut sign = 1u128;
    let ghost mut kt: int = -1;   // true_t * a == r + kt*P   (0*a == P - P)
    let ghost mut kn: int = 0;    // true_newt * a == newr + kn*P

    while newr != 0
        invariant
            sign == 0 || sign == 1,
            0 < a < P,
            newr < r,
            r <= P,
            (r == P && newr == a && sign == 1 && t == 0 && newt == 1) || r <= a,
            (newt as int) * (r as int) + (t as int) * (newr as int) == P,
            t <= P, newt <= P,
            (if sign == 1 { -(t as int) } else { t as int }) * (a as int) == (r as int) + kt * P,
            (if sign == 1 { newt as int } else { -(newt as int) }) * (a as int) == (newr as int) + kn * P,
        decreases newr,
    {
        let quotient = r / newr;
        let ghost (ot, ont, or, onr) = (t as int, newt as int, r as int, newr as int);
        proof {
            lemma_fundamental_div_mod(or, onr);
            // or == onr * q + or % onr
            assert(or == onr * (or / onr) + or % onr);
            lemma_mod_bound(or, onr);
            // q * ont <= P since ont * or <= P
            assert(ont * or <= P) by(nonlinear_arith) requires ont * or + ot * onr == P, ot >= 0, onr >= 0;
            assert((or / onr) * onr <= or) by(nonlinear_arith) requires or == onr * (or / onr) + or % onr, or % onr >= 0;
            assert((or / onr) * ont <= P) by(nonlinear_arith)
                requires ont * or <= P, (or / onr) * onr <= or, onr >= 1, ont >= 0, or / onr >= 0;
            assert(ot + (or / onr) * ont <= P) by(nonlinear_arith)
                requires ont * or + ot * onr == P, or == onr * (or / onr) + or % onr, or % onr >= 0, onr >= 1, ot >= 0, ont >= 0, or/onr >= 0;
        }
        std::mem::swap(&mut t, &mut newt);
        std::mem::swap(&mut r, &mut newr);
        newt += quotient * t;
        newr -= quotient * r;
        // flip sign
        sign = 1 - sign;
        proof {
            let q = or / onr;
            assert(t == ont && r == onr && newt == ot + q * ont && newr == or - q * onr);
            assert((newt as int) * (r as int) + (t as int) * (newr as int) == P) by(nonlinear_arith)
                requires newt == ot + q * ont, r == onr, t == ont, newr == or - q * onr, ont * or + ot * onr == P;
            let (okt, okn) = (kt, kn);
            kt = okn;
            kn = okt - q * okn;
            if sign == 0 {
                // old sign 1: -ot*a == or + okt*P ; ont*a == onr + okn*P
                assert(-(newt as int) * (a as int) == (newr as int) + kn * P) by(nonlinear_arith)
                    requires newt == ot + q * ont, newr == or - q * onr, -ot * (a as int) == or + okt * P, ont * (a as int) == onr + okn * P, kn == okt - q * okn;
            } else {
                assert((newt as int) * (a as int) == (newr as int) + kn * P) by(nonlinear_arith)
                    requires newt == ot + q * ont, newr == or - q * onr, ot * (a as int) == or + okt * P, -ont * (a as int) == onr + okn * P, kn == okt - q * okn;
            }
        }
    }
    proof {
        // newr == 0 -> newt * r == P, r | P, r <= a < P, prime => r == 1
        assert(P == (newt as int) * (r as int)) by(nonlinear_arith) requires (newt as int) * (r as int) + (t as int) * (newr as int) == P, newr == 0;
        lemma_mod_multiples_basic(newt as int, r as int);
        assert(divides(r as int, P));
        assert(r == 1);
    }
    proof {
        assert(sign == 0 || sign == 1);
        if sign == 1 {
            assert((1 - sign) * t == 0 && sign * (2305843009213693951u128 - t) == P - t) by(nonlinear_arith) requires sign == 1, t <= P;
        } else {
            assert((1 - sign) * t == t && sign * (2305843009213693951u128 - t) == 0) by(nonlinear_arith) requires sign == 0, t <= P;
        }
    }
    let x = (1 - sign) * t + sign * (2305843009213693951u128 - t);
    let ghost kk: int = if sign == 1 { kt + a } else { kt };
    proof {
        if sign == 1 {
            assert((x as int) * (a as int) == 1 + (kt + a) * P) by(nonlinear_arith)
                requires x == P - t, -(t as int) * (a as int) == 1 + kt * P;
        } else {
            assert((x as int) * (a as int) == 1 + kt * P);
        }
        assert((x as int) * (a as int) == 1 + kk * P);
        lemma_mod_multiples_vanish(kk, 1, P);
        assert(P * kk + 1 == 1 + kk * P) by(nonlinear_arith);
        lemma_small_mod(1, P as nat);
    }
    // Self::try_from(x).unwrap() == x % P  (x <= P; x == P impossible since P*a != 1 mod P)
    proof {
        if x == P {
            assert(false) by(nonlinear_arith) requires P * (a as int) == 1 + kk * P, P > 1;
        }
    }
    x
}

}
fn main() {}
