// engine K — protocol/context/validator.rs (property C06: disjoint PRSS / channel record ids per MAC batch)
use super::*;
use crate::{ff::Fp32BitPrime, sharding::NotSharded};

type M = Malicious<'static, Fp32BitPrime, NotSharded>;

/// With the call sites' constants (3 PRSS draws, 2 sends per batch) the record ids
/// (batch offset, k) -> total*offset + k are exact (no wrap) and pairwise distinct.
#[kani::proof]
fn c06_mac_batch_record_ids() {
    let o1: usize = kani::any();
    let o2: usize = kani::any();
    kani::assume(o1 <= (u32::MAX as usize - 2) / 3 && o2 <= (u32::MAX as usize - 2) / 3);
    kani::cover!(o1 != o2);
    kani::cover!(o1 == (u32::MAX as usize - 2) / 3);
    let ids1 = [M::u_record(o1, 3), M::w_record(o1, 3), M::r_share_record(o1, 3)];
    let ids2 = [M::u_record(o2, 3), M::w_record(o2, 3), M::r_share_record(o2, 3)];
    assert!(u32::from(ids1[0]) as usize == 3 * o1);
    assert!(u32::from(ids1[1]) as usize == 3 * o1 + 1);
    assert!(u32::from(ids1[2]) as usize == 3 * o1 + 2);
    let a: usize = kani::any();
    let b: usize = kani::any();
    kani::assume(a < 3 && b < 3);
    assert!((ids1[a] == ids2[b]) == (o1 == o2 && a == b));
    // the two sends of propagate_u_and_w
    let s1 = [M::u_record(o1, 2), M::w_record(o1, 2)];
    let s2 = [M::u_record(o2, 2), M::w_record(o2, 2)];
    kani::assume(a < 2 && b < 2);
    assert!((s1[a] == s2[b]) == (o1 == o2 && a == b));
    assert!(u32::from(M::reveal_check_zero_record(o1)) as usize == o1);
}

#[cfg(test)]
include!(concat!(env!("IPA_VERIF_DIR"), "/.build/playback/validator.rs"));
