// engine K harnesses for module hook 'validator' (included under cfg(kani) by /repo)

#[cfg(test)]
include!(concat!(env!("IPA_VERIF_DIR"), "/.build/playback/validator.rs"));
