// engine K harnesses for module hook 'boolean_array' (included under cfg(kani) by /repo)

#[cfg(test)]
include!(concat!(env!("IPA_VERIF_DIR"), "/.build/playback/boolean_array.rs"));
