// engine K — ff/boolean_array.rs (properties C08 / C09: bit arrays keep their unused padding bits zero, so that
// equal values compare equal and serialise identically; integer <-> bit-array conversion is little endian)
//
// Values are read through `as_raw_slice()` (the storage bytes), not through `as_u128()` / `==`, which go through
// bitvec's domain iterators and cost CBMC minutes.
use super::*;
use crate::ff::U128Conversions;

fn raw_u128(bytes: &[u8]) -> u128 {
    let mut v = 0u128;
    let mut k = 0;
    while k < bytes.len() {
        v |= u128::from(bytes[k]) << (8 * k);
        k += 1;
    }
    v
}

/// `truncate_from(v)` stores exactly the low BITS bits of v, little endian, and nothing in the padding bits
macro_rules! ba_truncate {
    ($name:ident, $ba:ty, $bits:expr, $unwind:expr) => {
        #[kani::proof]
        #[kani::unwind($unwind)]
        fn $name() {
            let v: u128 = kani::any();
            kani::cover!(v >> $bits != 0);
            let x = <$ba>::truncate_from(v);
            assert!(raw_u128(x.as_raw_slice()) == v & ((1u128 << $bits) - 1));
            assert!(x.as_raw_slice().len() == ($bits + 7) / 8);
        }
    };
}
ba_truncate!(c09_ba3_truncate_le, BA3, 3, 6);
ba_truncate!(c09_ba8_truncate_le, BA8, 8, 10);
ba_truncate!(c09_ba20_truncate_le, BA20, 20, 23);
ba_truncate!(c09_ba32_truncate_le, BA32, 32, 35);
ba_truncate!(c09_ba64_truncate_le, BA64, 64, 67);

/// the bitwise complement of a sub-byte array is taken within BITS bits: the padding bits stay zero
/// (otherwise !x would not compare equal to the same value built any other way, and would not deserialize)
macro_rules! ba_not {
    ($name:ident, $ba:ty, $bits:expr, $unwind:expr) => {
        #[kani::proof]
        #[kani::unwind($unwind)]
        fn $name() {
            let v: u128 = kani::any();
            kani::assume(v >> $bits == 0);
            kani::cover!(v == 0);
            let x = <$ba>::truncate_from(v);
            let y = !x;
            let mask = (1u128 << $bits) - 1;
            assert!(raw_u128(y.as_raw_slice()) == !v & mask, "complement must stay inside BITS bits (zero padding)");
        }
    };
}
ba_not!(c08_ba3_not_padding, BA3, 3, 6);
ba_not!(c08_ba20_not_padding, BA20, 20, 23);
ba_not!(c08_ba8_not, BA8, 8, 10);

#[cfg(test)]
include!(concat!(env!("IPA_VERIF_DIR"), "/.build/playback/boolean_array.rs"));
