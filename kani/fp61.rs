// engine K — ff/prime_field.rs, `mod fp61*`: Fp61BitPrime (property C08). Shared text: kani/field_common.rs
include!(concat!(env!("IPA_VERIF_DIR"), "/kani/field_common.rs"));
field_harnesses!(Fp61BitPrime, u64, u128, 2_305_843_009_213_693_951, 61, cadical);

/// Fp61: `modulo_prime_base` delegates to `modulo_prime_u128` (used through its contract)
#[kani::proof_for_contract(Fp61BitPrime::modulo_prime_base)]
#[kani::stub_verified(Fp61BitPrime::modulo_prime_u128)]
#[kani::solver(z3)]
fn reduce_base_contract() {
    let v: u128 = kani::any();
    kani::cover!(v >= P);
    kani::cover!(v == u128::MAX);
    let r = Fp61BitPrime::modulo_prime_base(v);
    #[cfg(test)]
    assert!(reduce_base_post(v, &r));
    let _ = r;
}

/// Fp61-only entry points
#[kani::proof_for_contract(Fp61BitPrime::const_truncate)]
fn const_truncate_contract() {
    let v: u64 = kani::any();
    kani::cover!(v == u64::MAX);
    let r = Fp61BitPrime::const_truncate(v);
    #[cfg(test)]
    assert!(reduce_post(u128::from(v), &r));
    let _ = r;
}

#[kani::proof]
fn from_bit_total() {
    let b: bool = kani::any();
    kani::cover!(b);
    let r = Fp61BitPrime::from_bit(b);
    assert!(canon(&r) && val(&r) == u128::from(b));
}

#[cfg(test)]
include!(concat!(env!("IPA_VERIF_DIR"), "/.build/playback/fp61.rs"));
