// engine K harnesses for module hook 'fp61' (included under cfg(kani) by /repo)

#[cfg(test)]
include!(concat!(env!("IPA_VERIF_DIR"), "/.build/playback/fp61.rs"));
