// engine K — protocol/prss/mod.rs (property C06: index arithmetic never aliases two draws)
use super::*;

/// PrssIndex128::new is Ok iff offset <= 2^11; the u128/u64 encodings are injective on valid indices
/// and inverse to try_from => distinct (index, offset) give distinct block-cipher inputs.
#[kani::proof]
fn c06_prss_index128_injective() {
    let i1: u32 = kani::any();
    let o1: usize = kani::any();
    let i2: u32 = kani::any();
    let o2: usize = kani::any();
    let a = PrssIndex128::new(PrssIndex::from(i1), o1);
    let b = PrssIndex128::new(PrssIndex::from(i2), o2);
    kani::cover!(o1 == 2048);
    kani::cover!(o1 == 2049);
    kani::cover!(i1 != i2 && o1 != o2 && o1 <= 2048 && o2 <= 2048);
    assert!(a.is_ok() == (o1 <= 2048));
    if let (Ok(a), Ok(b)) = (a, b) {
        let (ua, ub) = (u128::from(a), u128::from(b));
        assert!((ua == ub) == (i1 == i2 && o1 == o2));
        assert!(ua == (u128::from(i1) << 32) + o1 as u128);
        assert!(u128::from(u64::from(a)) == ua);
        assert!(a.index() == PrssIndex::from(i1));
        match PrssIndex128::try_from(ua) {
            Ok(back) => assert!(back == a),
            Err(_) => assert!(false, "round trip of a valid index failed"),
        }
    }
}

/// decoding a cipher-input integer: Ok iff it is < 2^64 and its low word is a valid offset
#[kani::proof]
fn c06_prss_index128_try_from() {
    let v: u128 = kani::any();
    kani::cover!(v >> 64 != 0);
    kani::cover!(v >> 64 == 0 && (v & 0xffff_ffff) > 2048);
    let r = PrssIndex128::try_from(v);
    let valid = v >> 64 == 0 && (v & 0xffff_ffff) <= 2048;
    assert!(r.is_ok() == valid);
    if let Ok(x) = r {
        assert!(u128::from(x) == v);
    }
}

/// the sequential counter can only move forward; it never wraps silently
#[kani::proof]
fn c06_prss_index_add_no_wrap() {
    let i: u32 = kani::any();
    let d: u32 = kani::any();
    kani::assume(i.checked_add(d).is_some());
    kani::cover!(i == u32::MAX - d && d > 0);
    let mut x = PrssIndex::from(i);
    x += d;
    assert!(x == PrssIndex::from(i + d));
    // the conversion used by call sites that pass u128 indices
    let w: u128 = kani::any();
    kani::assume(w <= u128::from(u32::MAX));
    assert!(PrssIndex::from(w) == PrssIndex::from(w as u32));
}

/// `PrssIndex::offset` (used by every multi-block draw): chunk k of index i is the cipher input (i << 32) + k
#[kani::proof]
fn c06_prss_offset_chunks_distinct() {
    let i: u32 = kani::any();
    let k1: usize = kani::any();
    let k2: usize = kani::any();
    kani::assume(k1 <= 2048 && k2 <= 2048);
    kani::cover!(k1 != k2);
    let a = u128::from(PrssIndex::from(i).offset(k1));
    let b = u128::from(PrssIndex::from(i).offset(k2));
    assert!((a == b) == (k1 == k2));
}

#[cfg(test)]
include!(concat!(env!("IPA_VERIF_DIR"), "/.build/playback/prss.rs"));
