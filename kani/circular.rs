// engine K — helpers/buffers/circular.rs (property C14: the ring buffer is a FIFO byte queue)
//
// The unbounded proof of the cursor functions is engine V (verus/circular_cursors). The units here are the
// bounded stand-ins for what Verus cannot digest (`take`, `Next::write`, `range`: RangeInclusive, slices, Vec)
// and a cross-check / witness source for the cursor contracts.  Abstract state: the queue of `abs_len` bytes
// starting at `mask(read)`.
use super::*;

impl CircularBuf {
    fn abs_len(&self) -> usize {
        let cap = self.data.len();
        if self.write >= self.read { self.write - self.read } else { 2 * cap - self.read + self.write }
    }
    /// representation invariant
    fn wf(&self) -> bool {
        let cap = self.data.len();
        cap > 0
            && self.write_size > 0
            && self.read_size > 0
            && cap % self.write_size == 0
            && self.read_size % self.write_size == 0
            && self.read_size <= cap
            && self.read < 2 * cap
            && self.write < 2 * cap
            && self.read % self.write_size == 0
            && self.write % self.write_size == 0
            && self.abs_len() <= cap
    }
}

const MAXCAP: usize = 8;

fn any_buf(max_cap: usize, contents: &[u8; MAXCAP]) -> CircularBuf {
    let cap: usize = kani::any();
    kani::assume(cap > 0 && cap <= max_cap);
    let buf = CircularBuf {
        write: kani::any(),
        read: kani::any(),
        read_size: kani::any(),
        write_size: kani::any(),
        closed: kani::any(),
        data: contents[..cap].to_vec(),
    };
    kani::assume(buf.wf());
    buf
}

/// cursor contracts (cross-check of the Verus unit on the unsubstituted code), capacity <= 64
#[kani::proof]
#[kani::unwind(3)]
fn c14_cursor_contracts_k() {
    let cap: usize = kani::any();
    kani::assume(cap > 0 && cap <= 64);
    let buf = CircularBuf {
        write: kani::any(),
        read: kani::any(),
        read_size: kani::any(),
        write_size: kani::any(),
        closed: kani::any(),
        data: vec![0u8; cap],
    };
    kani::assume(buf.wf());
    let n = buf.abs_len();
    kani::cover!(buf.write < buf.read);
    kani::cover!(n == cap);
    kani::cover!(n == 0 && buf.read != 0);
    assert!(buf.len() == n);
    assert!(buf.capacity() == cap);
    assert!(buf.is_empty() == (n == 0));
    assert!(buf.remaining() == cap - n);
    assert!(buf.can_write() == (!buf.closed && cap - n >= buf.write_size));
    assert!(buf.can_read() == ((buf.closed && n > 0) || n >= buf.read_size));
    assert!(buf.is_closed() == buf.closed);
    let d: usize = kani::any();
    kani::assume(d <= cap);
    assert!(buf.inc(buf.write, d) == (buf.write + d) % (2 * cap));
    assert!(buf.mask(buf.read) == buf.read % cap && buf.wrap(buf.read) == buf.read);
}

/// `Next::write`: exactly the ws bytes at mask(write) are overwritten with the message, everything else is
/// unchanged (frame), the queue grows by ws, the invariant is kept.
#[kani::proof]
#[kani::unwind(10)]
fn c14_write_contract() {
    let contents: [u8; MAXCAP] = kani::any();
    let mut buf = any_buf(MAXCAP, &contents);
    kani::assume(buf.write_size <= 2);
    kani::assume(buf.can_write());
    let (cap, ws, w0, r0, n0) = (buf.data.len(), buf.write_size, buf.write, buf.read, buf.abs_len());
    let msg: [u8; 2] = kani::any();
    kani::cover!(ws == 2 && w0 >= cap);
    kani::cover!(ws == 1 && n0 == cap - 1);
    buf.next().write(&msg[..ws]);
    assert!(buf.wf());
    assert!(buf.read == r0 && !buf.closed);
    assert!(buf.abs_len() == n0 + ws);
    assert!(buf.write == (w0 + ws) % (2 * cap));
    let i: usize = kani::any();
    kani::assume(i < cap);
    let start = w0 % cap;
    if i >= start && i < start + ws {
        assert!(buf.data[i] == msg[i - start]);
    } else {
        assert!(buf.data[i] == contents[i]);
    }
}

/// `take`: returns nothing (state unchanged) when !can_read; otherwise min(rs, abs_len) bytes in queue order
/// starting at mask(read), advances `read` by that amount, leaves data / write untouched, keeps the invariant.
#[kani::proof]
#[kani::unwind(10)]
fn c14_take_contract() {
    let contents: [u8; MAXCAP] = kani::any();
    let mut buf = any_buf(MAXCAP, &contents);
    let (cap, rs, w0, r0, n0, closed) = (buf.data.len(), buf.read_size, buf.write, buf.read, buf.abs_len(), buf.closed);
    let readable = (closed && n0 > 0) || n0 >= rs;
    kani::cover!(readable && r0 % cap + rs > cap);
    kani::cover!(readable && closed && n0 < rs);
    kani::cover!(!readable && n0 > 0);
    let out = buf.take();
    assert!(buf.wf());
    assert!(buf.write == w0 && buf.closed == closed);
    let k: usize = kani::any();
    kani::assume(k < cap);
    assert!(buf.data[k] == contents[k]);
    if !readable {
        assert!(out.is_empty() && buf.read == r0);
    } else {
        let len = if rs < n0 { rs } else { n0 };
        assert!(out.len() == len && len > 0);
        assert!(closed || len == rs);
        assert!(buf.read == (r0 + len) % (2 * cap));
        assert!(buf.abs_len() == n0 - len);
        let i: usize = kani::any();
        kani::assume(i < len);
        assert!(out[i] == contents[(r0 + i) % cap]);
    }
}

/// `close` only sets the flag
#[kani::proof]
#[kani::unwind(10)]
fn c14_close_contract() {
    let contents: [u8; MAXCAP] = kani::any();
    let mut buf = any_buf(MAXCAP, &contents);
    kani::assume(!buf.closed);
    let (w0, r0) = (buf.write, buf.read);
    kani::cover!(true);
    buf.close();
    assert!(buf.closed && buf.write == w0 && buf.read == r0 && buf.wf());
    assert!(!buf.can_write());
}

/// `new` establishes the invariant with an empty queue
#[kani::proof]
#[kani::unwind(10)]
fn c14_new_contract() {
    let cap: usize = kani::any();
    let ws: usize = kani::any();
    let rs: usize = kani::any();
    kani::assume(cap > 0 && cap <= MAXCAP && ws > 0 && rs > 0 && cap % ws == 0 && rs % ws == 0 && rs <= cap);
    kani::cover!(cap == 6 && ws == 2 && rs == 6);
    let buf = CircularBuf::new(cap, ws, rs);
    assert!(buf.wf() && buf.abs_len() == 0 && !buf.closed && buf.capacity() == cap);
}

/// FIFO: from a fresh buffer, any sequence of <= 4 operations (write / take / close) returns exactly the bytes
/// of a reference queue, in order, in read_size chunks (remainder after close).
#[kani::proof]
#[kani::unwind(10)]
fn c14_fifo_against_reference() {
    let cap: usize = kani::any();
    let ws: usize = kani::any();
    let rs: usize = kani::any();
    kani::assume(cap > 0 && cap <= 4 && ws > 0 && ws <= 2 && rs > 0 && cap % ws == 0 && rs % ws == 0 && rs <= cap);
    let mut buf = CircularBuf::new(cap, ws, rs);
    // reference queue: bytes pushed so far / popped so far
    let mut model = [0u8; 8];
    let (mut pushed, mut popped) = (0usize, 0usize);
    let mut next_byte = 1u8;
    for _ in 0..4 {
        let op: u8 = kani::any();
        if op == 0 && buf.can_write() {
            let msg = [next_byte, next_byte.wrapping_add(1)];
            model[pushed] = msg[0];
            if ws == 2 {
                model[pushed + 1] = msg[1];
            }
            pushed += ws;
            next_byte = next_byte.wrapping_add(2);
            buf.next().write(&msg[..ws]);
        } else if op == 1 {
            let out = buf.take();
            let avail = pushed - popped;
            if avail >= rs || (buf.is_closed() && avail > 0) {
                let len = if rs < avail { rs } else { avail };
                assert!(out.len() == len);
                let i: usize = kani::any();
                kani::assume(i < len);
                assert!(out[i] == model[popped + i]);
                popped += len;
            } else {
                assert!(out.is_empty());
            }
        } else if op == 2 && !buf.is_closed() {
            buf.close();
        }
        assert!(buf.len() == pushed - popped);
    }
    kani::cover!(popped >= 2 && buf.is_closed());
    kani::cover!(pushed == 6);
}

#[cfg(test)]
include!(concat!(env!("IPA_VERIF_DIR"), "/.build/playback/circular.rs"));
