// engine K harnesses for module hook 'circular' (included under cfg(kani) by /repo)

#[cfg(test)]
include!(concat!(env!("IPA_VERIF_DIR"), "/.build/playback/circular.rs"));
