// engine K — protocol/ipa_prf/validation_protocol/proof_generation.rs (property C03: recursion depth suffices)
use super::*;
use crate::protocol::context::dzkp_validator::{MIN_PROOF_RECURSION, TARGET_PROOF_SIZE};

/// With the code's own recursion factors and depth constants (non-test TARGET_PROOF_SIZE):
///   L * (S-1) * S^(d-2) >= 4 * TARGET_PROOF_SIZE   (documented hard limit: the largest batch fits)
/// the bound used by ProofBatch::generate's own assert is the same expression, MIN_PROOF_RECURSION >= 2,
/// proof lengths are 2*factor - 1, and the flat proof array holds one first proof + (d-1) compressed proofs.
#[kani::proof]
fn c03_recursion_constants() {
    kani::cover!(true);
    const L: usize = FirstProofGenerator::RECURSION_FACTOR;
    const S: usize = CompressedProofGenerator::RECURSION_FACTOR;
    const D: usize = MAX_PROOF_RECURSION;
    assert!(L == FRF);
    assert!(MIN_PROOF_RECURSION >= 2 && D >= MIN_PROOF_RECURSION);
    let max_uv = (S - 1).checked_mul(S.pow((D - 2) as u32));
    assert!(max_uv.is_some());
    let cap = max_uv.and_then(|m| m.checked_mul(L));
    assert!(cap.is_some());
    assert!(cap.unwrap_or(0) >= 4 * TARGET_PROOF_SIZE);
    assert!(FirstProofGenerator::PROOF_LENGTH == 2 * L - 1);
    assert!(CompressedProofGenerator::PROOF_LENGTH == 2 * S - 1);
    assert!(FirstProofGenerator::LAGRANGE_LENGTH == L - 1 && CompressedProofGenerator::LAGRANGE_LENGTH == S - 1);
    assert!(ARRAY_LEN == FirstProofGenerator::PROOF_LENGTH + (D - 1) * CompressedProofGenerator::PROOF_LENGTH);
}

#[cfg(test)]
include!(concat!(env!("IPA_VERIF_DIR"), "/.build/playback/proof_generation.rs"));
