// engine K harnesses for module hook 'proof_generation' (included under cfg(kani) by /repo)

#[cfg(test)]
include!(concat!(env!("IPA_VERIF_DIR"), "/.build/playback/proof_generation.rs"));
