// engine K — utils/power_of_two.rs (property C13: the power-of-two helper behind the capacity/alignment rule)
use super::*;

/// r is a power of two and r <= max(1,t) < 2r, for every usize
#[kani::proof]
fn c13_prev_power_of_two() {
    let t: usize = kani::any();
    kani::cover!(t == 0);
    kani::cover!(t == usize::MAX);
    kani::cover!(t.is_power_of_two() && t > 1);
    let r = non_zero_prev_power_of_two(t);
    assert!(r.is_power_of_two());
    let m = if t == 0 { 1 } else { t };
    assert!(r <= m && (m as u128) < 2 * (r as u128));
}

/// NonZeroU32PowerOfTwo::try_from accepts exactly the powers of two in 1..u32::MAX and round-trips
#[kani::proof]
fn c13_nonzero_pow2_try_from() {
    let v: usize = kani::any();
    kani::cover!(v == 1 << 31);
    kani::cover!(v == 1 << 32);
    match NonZeroU32PowerOfTwo::try_from(v) {
        Ok(p) => {
            assert!(v > 0 && v < u32::MAX as usize && v.is_power_of_two());
            assert!(p.get() == v && usize::from(p) == v && u32::from(p) as usize == v);
            assert!(p.to_non_zero_usize().get() == v);
        }
        Err(_) => assert!(!(v > 0 && v < u32::MAX as usize && v.is_power_of_two())),
    }
}

#[cfg(test)]
include!(concat!(env!("IPA_VERIF_DIR"), "/.build/playback/power_of_two.rs"));
