// engine K harnesses for module hook 'power_of_two' (included under cfg(kani) by /repo)

#[cfg(test)]
include!(concat!(env!("IPA_VERIF_DIR"), "/.build/playback/power_of_two.rs"));
