// engine K — protocol/dp/mod.rs (property C12: parameter validation; noise value -> share mapping at every width)
use super::*;
use crate::ff::boolean_array::{BA8, BA16, BA32};
use crate::secret_sharing::SharedValue;
use crate::protocol::ipa_prf::oprf_padding::insecure::verif_kani::mk_padding_dp;

/// NoiseParams::new accepts exactly the documented ranges (all non-NaN f64):
/// epsilon > 0, delta > 0, 0 <= success_prob <= 1, dimensions > 0, quantization_scale > 0, all three sensitivities > 0
#[kani::proof]
fn c12_noise_params_new() {
    let eps: f64 = kani::any();
    let delta: f64 = kani::any();
    let p: f64 = kani::any();
    let d: f64 = kani::any();
    let q: f64 = kani::any();
    let l1: f64 = kani::any();
    let l2: f64 = kani::any();
    let li: f64 = kani::any();
    let cap: u32 = kani::any();
    kani::assume(!eps.is_nan() && !delta.is_nan() && !p.is_nan() && !d.is_nan() && !q.is_nan());
    kani::assume(!l1.is_nan() && !l2.is_nan() && !li.is_nan());
    let expect = eps > 0.0 && delta > 0.0 && p >= 0.0 && p <= 1.0 && d > 0.0 && q > 0.0 && l1 > 0.0 && l2 > 0.0 && li > 0.0;
    kani::cover!(expect);
    kani::cover!(!expect);
    match NoiseParams::new(eps, delta, cap, p, d, q, l1, l2, li) {
        Ok(n) => {
            assert!(expect);
            assert!(n.epsilon == eps && n.delta == delta && n.per_user_credit_cap == cap && n.success_prob == p);
        }
        Err(_) => assert!(!expect),
    }
}

// ---- sample_shares -----------------------------------------------------------------------------------------
static mut LAST_SAMPLE: u32 = 0;

/// assumed contract of the sampler (probability law not verified): 0 <= sample <= 2 * shift
fn stub_sample<R: RngCore + CryptoRng>(this: &ShiftedTruncatedDiscreteLaplace, _rng: &mut R) -> u32 {
    let s: u32 = kani::any();
    kani::assume(s <= 2 * this.shift);
    unsafe { LAST_SAMPLE = s };
    s
}
/// assumed contract of OPRFPaddingDp::new on valid parameters: some truncation point <= 1_000_000
fn stub_padding_new(_e: f64, _d: f64, _s: u32) -> Result<OPRFPaddingDp, crate::protocol::ipa_prf::oprf_padding::insecure::Error> {
    let shift: u32 = kani::any();
    kani::assume(shift <= 1_000_000);
    Ok(mk_padding_dp(shift))
}
struct NoRng;
impl RngCore for NoRng {
    fn next_u32(&mut self) -> u32 {
        unreachable!()
    }
    fn next_u64(&mut self) -> u64 {
        unreachable!()
    }
    fn fill_bytes(&mut self, _d: &mut [u8]) {
        unreachable!()
    }
    fn try_fill_bytes(&mut self, _d: &mut [u8]) -> Result<(), rand_core::Error> {
        unreachable!()
    }
}
impl CryptoRng for NoRng {}

fn params() -> NoiseParams {
    NoiseParams {
        epsilon: 1.0,
        delta: 1e-6,
        per_user_credit_cap: 1,
        success_prob: 0.5,
        dimensions: 1.0,
        quantization_scale: 1.0,
        ell_1_sensitivity: 1.0,
        ell_2_sensitivity: 1.0,
        ell_infty_sensitivity: 1.0,
    }
}

/// `ShiftedTruncatedDiscreteLaplace::new`: the stored modulus is exactly 2^bit_size for every bit_size <= 32
/// (in particular 2^32 at 32 bits, not 2^32 - 1) and the stored shift is the sampler's truncation point.
#[kani::proof]
#[kani::unwind(34)]
#[kani::stub(OPRFPaddingDp::new, stub_padding_new)]
fn c12_shifted_laplace_new_modulus() {
    let bits: u32 = kani::any();
    kani::assume(bits >= 1 && bits <= 32);
    kani::cover!(bits == 32);
    kani::cover!(bits == 1);
    let Ok(d) = ShiftedTruncatedDiscreteLaplace::new(&params(), bits) else {
        kani::assume(false);
        unreachable!()
    };
    assert!(u128::from(d.modulus) == 1u128 << bits);
    assert!(d.shift == d.truncated_discrete_laplace.get_shift() && d.shift <= 1_000_000);
}

/// `sample_shares` for output width OV::BITS, given the state `new` establishes (modulus = 2^BITS, proved above):
/// the share on the non-excluded side is (sample - shift) mod 2^BITS (two's complement wrap of the noise value in
/// -shift..=shift, so -1 maps to 2^BITS - 1), the other side is zero.
macro_rules! sample_shares {
    ($name:ident, $ov:ty, $unwind:expr) => {
        #[kani::proof]
        #[kani::unwind($unwind)]
        #[kani::stub(ShiftedTruncatedDiscreteLaplace::sample, stub_sample)]
        fn $name() {
            let bits = <$ov as SharedValue>::BITS;
            let shift: u32 = kani::any();
            kani::assume(shift <= 1_000_000);
            let d = ShiftedTruncatedDiscreteLaplace {
                truncated_discrete_laplace: mk_padding_dp(shift),
                shift,
                modulus: (1u64 << bits) as _,
            };
            let left: bool = kani::any();
            let dir = if left { Direction::Left } else { Direction::Right };
            let r: Replicated<$ov> = d.sample_shares(&mut NoRng, dir);
            let s = unsafe { LAST_SAMPLE };
            let noise = i64::from(s) - i64::from(d.shift);
            kani::cover!(noise == -1);
            kani::cover!(noise == 1);
            kani::cover!(noise == 0);
            // (s - shift) mod 2^bits: subtraction modulo 2^32 followed by keeping the low `bits` bits is exact because
            // 2^bits divides 2^32 (bits <= 32). Division-free on purpose (a second wide `%` costs minutes in SAT).
            let expect = u128::from(s.wrapping_sub(d.shift)) & ((1u128 << bits) - 1);
            let (zero_side, noise_side) = if left { (r.left(), r.right()) } else { (r.right(), r.left()) };
            // values are read through the raw storage bytes (little endian): `as_u128` / `==` on bit arrays go
            // through bitvec's domain iterators, which cost CBMC minutes of symbolic execution (measured: 6 min)
            let raw = |x: &$ov| {
                let mut v = 0u128;
                let mut k = 0;
                while k < (bits as usize) / 8 {
                    v |= u128::from(x.as_raw_slice()[k]) << (8 * k);
                    k += 1;
                }
                v
            };
            assert!(raw(&zero_side) == 0);
            assert!(raw(&noise_side) == expect);
        }
    };
}
sample_shares!(c12_sample_shares_ba8, BA8, 10);
sample_shares!(c12_sample_shares_ba16, BA16, 18);
sample_shares!(c12_sample_shares_ba32, BA32, 34);

#[cfg(test)]
include!(concat!(env!("IPA_VERIF_DIR"), "/.build/playback/dp.rs"));
