// engine K harnesses for module hook 'dp' (included under cfg(kani) by /repo)

#[cfg(test)]
include!(concat!(env!("IPA_VERIF_DIR"), "/.build/playback/dp.rs"));
