// native replay for the woven binary-field units (engine KW): the counterexample operands found on the woven integer
// function are fed to the REAL field type; every ring / field axiom the units state is re-checked on them.
#[test]
fn verif_replay_gf_axioms() {
    use crate::{ff::{__TYPE__, U128Conversions}, secret_sharing::SharedValue};
    type G = __TYPE__;
    let (x, y, z) = (G::truncate_from(__X___u128), G::truncate_from(__Y___u128), G::truncate_from(__Z___u128));
    let r = std::panic::catch_unwind(|| {
        let one = G::truncate_from(1_u128);
        let mut bad = Vec::new();
        if x * one != x || one * x != x || x * G::ZERO != G::ZERO { bad.push("identity"); }
        if x * y != y * x { bad.push("commutativity"); }
        if x * (y + z) != x * y + x * z { bad.push("distributivity"); }
        if (x * y) * z != x * (y * z) { bad.push("associativity"); }
        if x != G::ZERO && __BITS__ <= 9 {
            // x^(2^BITS - 2)
            let mut inv = one;
            let mut k = 0u32;
            while k < (1u32 << __BITS__) - 2 { inv = inv * x; k += 1; }
            if x * inv != one { bad.push("inverse"); }
        }
        bad
    });
    match r {
        Err(_) => panic!("multiplication panicked on x = __X__, y = __Y__, z = __Z__ (reduced product does not fit in BITS bits)"),
        Ok(bad) => assert!(bad.is_empty(), "axioms violated for x = __X__, y = __Y__, z = __Z__: {bad:?}"),
    }
}
