// native replay for the c10_conversion_info_total_* units when Kani's concrete playback yields no test:
// the boundary inputs of the parser, fed to the real function; a panic is caught and reported as the failure
#[test]
fn verif_replay_parsers_total() {
    let inputs: [&[u8]; 5] = [&[], &[1, 2, 3], &[0], &[0, 7], &[65, 0, 1, 2, 3]];
    for inp in inputs {
        let r = std::panic::catch_unwind(|| HybridConversionInfo::from_bytes(inp).is_ok());
        assert!(r.is_ok(), "HybridConversionInfo::from_bytes panicked on {inp:?}");
        assert!(!r.unwrap(), "a malformed record was accepted: {inp:?}");
    }
    let r = std::panic::catch_unwind(|| HybridImpressionInfo::from_bytes(&[]).is_ok());
    assert!(r.is_ok(), "HybridImpressionInfo::from_bytes panicked on the empty input");
}
