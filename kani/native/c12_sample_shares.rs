// native replay for the units c12_sample_shares_*: the Kani harness stubs the sampler, and stubs are not applied
// natively, so the counterexample (a sample value) is replayed by drawing from the REAL sampler with a seeded RNG
// until the noise value -1 comes up, and checking the share produced for exactly that draw at every width.
#[test]
fn verif_replay_sample_shares_minus_one() {
    use rand::{SeedableRng, rngs::StdRng};
    fn check<OV: BooleanArray + U128Conversions>() {
        let params = NoiseParams { epsilon: 1.0, delta: 1e-3, per_user_credit_cap: 1, ..NoiseParams::default() };
        let d = ShiftedTruncatedDiscreteLaplace::new(&params, OV::BITS).unwrap();
        let mut rng = StdRng::seed_from_u64(7);
        let mut seen = false;
        for _ in 0..200_000 {
            let mut peek = rng.clone();
            let s = d.sample(&mut peek);
            let r: Replicated<OV> = d.sample_shares(&mut rng, Direction::Left);
            if i64::from(s) - i64::from(d.shift) == -1 {
                seen = true;
                let expect = (1u128 << OV::BITS) - 1;
                assert_eq!(r.right().as_u128(), expect, "noise value -1 must map to 2^{} - 1", OV::BITS);
                assert_eq!(r.left(), OV::ZERO);
            }
        }
        assert!(seen, "the seeded RNG never produced noise -1 (replay inconclusive)");
    }
    check::<BA8>();
    check::<BA16>();
    check::<BA32>();
}
