// native replay for c10_report_from_bytes_short when Kani's concrete playback yields no test
#[test]
fn verif_replay_report_from_bytes_empty() {
    for inp in [&[][..], &[0u8][..], &[1u8, 2][..], &[2u8, 0, 0][..]] {
        let b = Bytes::copy_from_slice(inp);
        let r = std::panic::catch_unwind(move || EncryptedHybridReport::<BA8, BA3>::from_bytes(b).is_ok());
        assert!(r.is_ok(), "EncryptedHybridReport::from_bytes panicked on {inp:?}");
        assert!(!r.unwrap(), "a truncated record was accepted: {inp:?}");
    }
}
