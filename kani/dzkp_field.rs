// engine K harnesses for module hook 'dzkp_field' (included under cfg(kani) by /repo)

#[cfg(test)]
include!(concat!(env!("IPA_VERIF_DIR"), "/.build/playback/dzkp_field.rs"));
