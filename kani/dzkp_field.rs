// engine K — protocol/context/dzkp_field.rs (properties C03 and C08)
use super::*;
use crate::ff::U128Conversions;

const P: u128 = Fp61BitPrime::PRIME as u128;

/// C08: the proof-field constants are what their names say, and canonical
#[kani::proof]
fn c08_dzkp_constants() {
    kani::cover!(true);
    let half = <Fp61BitPrime as DZKPBaseField>::INVERSE_OF_TWO.as_u128();
    let mhalf = <Fp61BitPrime as DZKPBaseField>::MINUS_ONE_HALF.as_u128();
    let mtwo = <Fp61BitPrime as DZKPBaseField>::MINUS_TWO.as_u128();
    assert!(half < P && mhalf < P && mtwo < P);
    assert!((2 * half) % P == 1);
    assert!((mhalf + half) % P == 0);
    assert!((mtwo + 2) % P == 0);
}

/// C03/C09: nibble i/4 of output word i%4 is the 3-bit index (b0[i], b1[i], b2[i]); the nibble's top bit is 0
#[kani::proof]
fn c03_bits_to_table_indices() {
    let b0: u128 = kani::any();
    let b1: u128 = kani::any();
    let b2: u128 = kani::any();
    let z = bits_to_table_indices(b0, b1, b2);
    let i: u32 = kani::any();
    kani::assume(i < 128);
    kani::cover!(i == 127);
    kani::cover!(i % 4 == 2);
    let expect = ((b0 >> i) & 1) | (((b1 >> i) & 1) << 1) | (((b2 >> i) & 1) << 2);
    let got = (z[(i % 4) as usize] >> (4 * (i / 4))) & 0xf;
    assert!(got == expect);
}

/// C03: on the real TABLE_U / TABLE_V and with the real field arithmetic, for all 64 assignments of (a,b,c,d,e,f):
///   sum_k U[a|c<<1|e<<2][k] * V[b|d<<1|f<<2][k] == -1/2   <=>   e == ab ^ cd ^ f
/// (the all-zero padding row is the case bits = 0 and is consistent).
#[kani::proof]
#[kani::unwind(66)]
fn c03_uv_table_identity() {
    kani::cover!(true);
    let mut consistent_rows = 0u32;
    for bits in 0u8..64 {
        let a = bits & 1 != 0;
        let b = bits & 2 != 0;
        let c = bits & 4 != 0;
        let d = bits & 8 != 0;
        let e = bits & 16 != 0;
        let f = bits & 32 != 0;
        let iu = usize::from(a) | usize::from(c) << 1 | usize::from(e) << 2;
        let iv = usize::from(b) | usize::from(d) << 1 | usize::from(f) << 2;
        let u = &TABLE_U[iu];
        let v = &TABLE_V[iv];
        let s = u[0] * v[0] + u[1] * v[1] + u[2] * v[2] + u[3] * v[3];
        let consistent = e == ((a & b) ^ (c & d) ^ f);
        if consistent {
            consistent_rows += 1;
        }
        assert!((s == <Fp61BitPrime as DZKPBaseField>::MINUS_ONE_HALF) == consistent);
    }
    assert!(consistent_rows == 32);
}

/// same identity, one symbolic gate assignment instead of the unrolled enumeration
#[kani::proof]
fn c03_uv_table_identity_sym() {
    let bits: u8 = kani::any();
    kani::assume(bits < 64);
    let a = bits & 1 != 0;
    let b = bits & 2 != 0;
    let c = bits & 4 != 0;
    let d = bits & 8 != 0;
    let e = bits & 16 != 0;
    let f = bits & 32 != 0;
    let iu = usize::from(a) | usize::from(c) << 1 | usize::from(e) << 2;
    let iv = usize::from(b) | usize::from(d) << 1 | usize::from(f) << 2;
    let u = &TABLE_U[iu];
    let v = &TABLE_V[iv];
    let s = u[0] * v[0] + u[1] * v[1] + u[2] * v[2] + u[3] * v[3];
    let consistent = e == ((a & b) ^ (c & d) ^ f);
    kani::cover!(consistent);
    kani::cover!(!consistent);
    kani::cover!(bits == 0);
    assert!((s == <Fp61BitPrime as DZKPBaseField>::MINUS_ONE_HALF) == consistent);
}

#[cfg(test)]
include!(concat!(env!("IPA_VERIF_DIR"), "/.build/playback/dzkp_field.rs"));
