// engine K — ff/boolean.rs (properties C08: GF(2) is a field; C09: only 0/1 decode)
use generic_array::GenericArray;

use super::*;

fn any_b() -> Boolean {
    Boolean(kani::any())
}

/// exhaustive GF(2) tables: + is xor, * is and, - = +, neg = id, ! flips; axioms -0=0, a+(-a)=0, a*1=a;
/// the only non-zero element is its own inverse
#[kani::proof]
fn c08_boolean_field() {
    let a = any_b();
    let b = any_b();
    let c = any_b();
    kani::cover!(a.0 && b.0);
    kani::cover!(!a.0 && !b.0);
    assert!((a + b).0 == (a.0 ^ b.0));
    assert!((a * b).0 == (a.0 & b.0));
    assert!((a - b) == (a + b));
    assert!(-a == a && (a + (-a)) == Boolean::ZERO && -Boolean::ZERO == Boolean::ZERO);
    assert!((!a).0 == !a.0);
    assert!(a * Boolean::ONE == a && a + Boolean::ZERO == a);
    assert!((a + b) + c == a + (b + c) && (a * b) * c == a * (b * c) && a * (b + c) == a * b + a * c);
    assert!(Boolean::ONE * Boolean::ONE == Boolean::ONE);
    let mut x = a;
    x += b;
    assert!(x == a + b);
    let mut y = a;
    y -= b;
    assert!(y == a - b);
    let mut z = a;
    z *= b;
    assert!(z == a * b);
    assert!(a.as_u128() == u128::from(a.0) && bool::from(a) == a.0);
    assert!(<Boolean as PrimeField>::PRIME == 2 && <Boolean as SharedValue>::BITS == 1);
}

/// `format!` only builds the error message (see kani/field_common.rs)
fn stub_format(_args: std::fmt::Arguments<'_>) -> String {
    String::new()
}

/// conversions from integers: truncate_from keeps the low bit; try_from accepts exactly 0 and 1
#[kani::proof]
#[kani::stub(alloc::fmt::format, stub_format)]
fn c08_boolean_conversions() {
    let v: u128 = kani::any();
    kani::cover!(v == 1);
    kani::cover!(v > 1 && v & 1 == 0);
    assert!(Boolean::truncate_from(v).0 == (v & 1 == 1));
    assert!(Boolean::from_random_u128(v).0 == (v & 1 == 1));
    match Boolean::try_from(v) {
        Ok(b) => assert!(v < 2 && b.0 == (v == 1)),
        Err(_) => assert!(v >= 2),
    }
    assert!(Boolean::from(v & 1 == 1).0 == (v & 1 == 1));
}

/// C09: Boolean::deserialize accepts exactly the bytes 0 and 1 (all 256 byte values)
#[kani::proof]
fn c09_boolean_deserialize() {
    let b: u8 = kani::any();
    kani::cover!(b == 1);
    kani::cover!(b == 2);
    let buf = GenericArray::from_array([b]);
    match Boolean::deserialize(&buf) {
        Ok(x) => assert!(b <= 1 && x.0 == (b == 1)),
        Err(_) => assert!(b > 1),
    }
}

#[cfg(test)]
include!(concat!(env!("IPA_VERIF_DIR"), "/.build/playback/boolean.rs"));
