// engine K harnesses for module hook 'galois_field' (included under cfg(kani) by /repo)

#[cfg(test)]
include!(concat!(env!("IPA_VERIF_DIR"), "/.build/playback/galois_field.rs"));
