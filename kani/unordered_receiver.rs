// engine K harnesses for module hook 'unordered_receiver' (included under cfg(kani) by /repo)

#[cfg(test)]
include!(concat!(env!("IPA_VERIF_DIR"), "/.build/playback/unordered_receiver.rs"));
