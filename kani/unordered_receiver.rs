// engine K — helpers/buffers/unordered_receiver.rs (property C14: the receive buffer never loses a wake-up)
//
// `OperatingState::add_waker` is sequential (callers hold the state's mutex): one waker per ring slot, far-ahead
// registrations go to the overflow list, the cursor is untouched. BOUNDED, enumerated.
// The history-level obligation "a waker registered for record i is woken no later than the wake_next that makes
// next == i" was written (symbolic and enumerated variants) but does not close: every `Waker::wake` is a call through
// a function pointer, which CBMC resolves by case split; 7-step histories exhaust 40 GB / 25 min (measured).
// Not modelled: the byte stream / `Spare` (GenericArray: CBMC abort), the mutex.
use std::task::{RawWaker, RawWakerVTable};

use super::*;

// Counting wakers without Arc / atomics (both are expensive for CBMC): the waker's data pointer points at a
// static counter; clone returns the same pointer, wake / wake_by_ref increment it, drop does nothing.
static mut WOKEN: [usize; 4] = [0; 4];
fn vt_clone(p: *const ()) -> RawWaker {
    RawWaker::new(p, &VTABLE)
}
fn vt_wake(p: *const ()) {
    unsafe { *(p as *mut usize) += 1 };
}
fn vt_drop(_p: *const ()) {}
static VTABLE: RawWakerVTable = RawWakerVTable::new(vt_clone, vt_wake, vt_wake, vt_drop);
fn counting_waker(k: usize) -> Waker {
    unsafe { Waker::from_raw(RawWaker::new(std::ptr::addr_of_mut!(WOKEN[k]) as *const (), &VTABLE)) }
}
fn woken(k: usize) -> usize {
    unsafe { WOKEN[k] }
}

type St = OperatingState<futures::stream::Empty<Vec<u8>>, Vec<u8>>;

fn mk(c: usize, next: usize) -> St {
    OperatingState {
        stream: Box::pin(futures::stream::empty()),
        next,
        max_polled_idx: None,
        spare: Spare::default(),
        wakers: vec![None; c],
        overflow_wakers: Vec::new(),
        _marker: PhantomData,
    }
}

fn reset_counters() {
    unsafe { WOKEN = [0; 4] };
}

/// `add_waker` keeps at most one waker per ring slot (a re-registration for the same record replaces the old one),
/// sends far-ahead registrations to the overflow list and never touches the read cursor; enumerated.
#[kani::proof]
#[kani::unwind(12)]
fn c14_receiver_add_waker_contract() {
    kani::cover!(true);
    let mut cc = 1usize;
    while cc <= 2 {
        let c = 2 * cc;
        let mut n0 = 0usize;
        while n0 < 4 {
            let mut i = n0 + 1;
            while i <= n0 + 9 {
                reset_counters();
                let mut st = mk(c, n0);
                st.add_waker(i, &counting_waker(0));
                st.add_waker(i, &counting_waker(1));
                assert!(st.next == n0 && st.is_next(n0) && !st.is_next(i));
                let in_ring = i <= n0 + c;
                let filled = st.wakers.iter().filter(|w| w.is_some()).count();
                assert!(filled == usize::from(in_ring));
                assert!(st.overflow_wakers.len() == if in_ring { 0 } else { 2 });
                if in_ring {
                    assert!(st.wakers[i % c].is_some());
                }
                i += 1;
            }
            n0 += 1;
        }
        cc += 1;
    }
}

#[cfg(test)]
include!(concat!(env!("IPA_VERIF_DIR"), "/.build/playback/unordered_receiver.rs"));
