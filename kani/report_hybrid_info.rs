// engine K — report/hybrid_info.rs (property C10: arbitrary info bytes never crash the parser)
use super::*;

/// HybridImpressionInfo::from_bytes is total on every slice of length 0..=2 (it only reads byte 0)
#[kani::proof]
fn c10_impression_info_total() {
    let data: [u8; 2] = kani::any();
    let len: usize = kani::any();
    kani::assume(len <= 2);
    kani::cover!(len == 0);
    kani::cover!(len == 2);
    let r = HybridImpressionInfo::from_bytes(&data[..len]);
    match r {
        Ok(i) => assert!(len >= 1 && i.key_id == data[0]),
        Err(_) => assert!(len == 0),
    }
}

/// HybridConversionInfo::from_bytes returns (never panics) for every byte string of the given concrete length
/// whose site-domain part is `dlen` bytes: covers no delimiter, delimiter first / last, short and long tails.
macro_rules! conv_total {
    ($name:ident, $len:expr) => {
        #[kani::proof]
        #[kani::unwind(32)]
        fn $name() {
            const LEN: usize = $len;
            let data: [u8; LEN] = kani::any();
            kani::cover!(true);
            let r = HybridConversionInfo::from_bytes(&data[..]);
            // a record is accepted only if it has a NUL delimiter followed by exactly 1 + 3*8 bytes
            if let Ok(info) = r {
                let d = info.conversion_site_domain.len();
                assert!(d + 1 + 25 == LEN && data[d] == 0 && info.key_id == data[d + 1]);
            }
        }
    };
}
conv_total!(c10_conversion_info_total_len0, 0);
conv_total!(c10_conversion_info_total_len1, 1);
conv_total!(c10_conversion_info_total_len2, 2);
conv_total!(c10_conversion_info_total_len25, 25);
conv_total!(c10_conversion_info_total_len26, 26);
conv_total!(c10_conversion_info_total_len27, 27);
conv_total!(c10_conversion_info_total_len28, 28);

#[cfg(test)]
include!(concat!(env!("IPA_VERIF_DIR"), "/.build/playback/report_hybrid_info.rs"));
