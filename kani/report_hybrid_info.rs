// engine K — report/hybrid_info.rs (property C10: arbitrary info bytes never crash the parser)
use super::*;

/// `format!` only builds panic / debug-assert messages here; its result never influences control flow.
/// (Symbolically executing the formatting machinery on reachable failure paths costs > 20 min per harness.)
fn stub_format(_args: std::fmt::Arguments<'_>) -> String {
    String::new()
}

/// HybridImpressionInfo::from_bytes is total on every slice of length 0..=2 (it only reads byte 0)
#[kani::proof]
fn c10_impression_info_total() {
    let data: [u8; 2] = kani::any();
    let len: usize = kani::any();
    kani::assume(len <= 2);
    kani::cover!(len == 0);
    kani::cover!(len == 2);
    let r = HybridImpressionInfo::from_bytes(&data[..len]);
    match r {
        Ok(i) => assert!(len >= 1 && i.key_id == data[0]),
        Err(_) => assert!(len == 0),
    }
}

/// HybridConversionInfo::from_bytes returns (never panics) for every byte string of the given concrete length
/// whose site-domain part is `dlen` bytes: covers no delimiter, delimiter first / last, short and long tails.
macro_rules! conv_total {
    ($name:ident, $len:expr, $unwind:expr) => {
        #[kani::proof]
        #[kani::unwind($unwind)]
        #[kani::stub(alloc::fmt::format, stub_format)]
        fn $name() {
            const LEN: usize = $len;
            let data: [u8; LEN] = kani::any();
            kani::cover!(true);
            let r = HybridConversionInfo::from_bytes(&data[..]);
            // a record is accepted only if it has a NUL delimiter followed by exactly 1 + 3*8 bytes
            if let Ok(info) = r {
                let d = info.conversion_site_domain.len();
                assert!(d + 1 + 25 == LEN && data[d] == 0 && info.key_id == data[d + 1]);
            }
        }
    };
}
// the unwinding bound follows the length: the UTF-8 validation loops of `String::from_utf8` are what CBMC spends its
// time on (with a blanket bound of 32 even the empty input did not finish in 20 min)
conv_total!(c10_conversion_info_total_len0, 0, 3);
conv_total!(c10_conversion_info_total_len1, 1, 4);
// lengths 2, 3 (26 GB exhausted) and 26, 27 (no verdict in 25 min) were tried and do not close: CBMC's
// post-processing of the pointer arithmetic in core::str's UTF-8 validation (align_offset) dominates even for
// tiny inputs (200 s for the empty input, 560 s for one byte).

/// C10 (authenticity mechanism "domain + origin + metadata as HPKE info"): `to_enc_bytes` is exactly
///   DOMAIN ++ HELPER_ORIGIN ++ site-domain bytes (unchanged) ++ key_id ++ timestamp ++ epsilon ++ sensitivity (big endian),
/// so two conversion infos that differ in any metadata bit have different HPKE info strings (injective layout for a
/// fixed site-domain length). BOUNDED: site domains of exactly N ASCII bytes (symbolic contents), N concrete per unit
/// (a symbolic length exhausts 26 GB once the function does any extra allocation).
macro_rules! enc_bytes_layout {
    ($name:ident, $n:expr) => {
        #[kani::proof]
        #[kani::unwind(40)]
        fn $name() {
            const N: usize = $n;
            let site: [u8; N] = kani::any();
            let mut k = 0;
            while k < N {
                kani::assume(site[k] < 0x80);
                k += 1;
            }
            // ASCII by the assumption above, so the unchecked constructor is sound (String::from_utf8's validation
            // loop costs CBMC minutes, see the units above)
            let domain = unsafe { String::from_utf8_unchecked(site.to_vec()) };
            let info = HybridConversionInfo {
                key_id: kani::any(),
                conversion_site_domain: domain,
                timestamp: kani::any(),
                epsilon: kani::any(),
                sensitivity: kani::any(),
            };
            kani::cover!(site[0] == b'M');
            kani::cover!(site[0] == b'm');
            let out = info.to_enc_bytes();
            let p = DOMAIN.len() + HELPER_ORIGIN.len();
            assert!(out.len() == p + N + 1 + 24);
            let i: usize = kani::any();
            kani::assume(i < out.len());
            let ts = info.timestamp.to_be_bytes();
            let ep = info.epsilon.to_be_bytes();
            let se = info.sensitivity.to_be_bytes();
            let expect = if i < DOMAIN.len() {
                DOMAIN.as_bytes()[i]
            } else if i < p {
                HELPER_ORIGIN.as_bytes()[i - DOMAIN.len()]
            } else if i < p + N {
                site[i - p]
            } else if i == p + N {
                info.key_id
            } else if i < p + N + 9 {
                ts[i - p - N - 1]
            } else if i < p + N + 17 {
                ep[i - p - N - 9]
            } else {
                se[i - p - N - 17]
            };
            assert!(out[i] == expect);
        }
    };
}
enc_bytes_layout!(c10_conversion_info_enc_bytes_layout_n1, 1);
enc_bytes_layout!(c10_conversion_info_enc_bytes_layout_n2, 2);

#[cfg(test)]
include!(concat!(env!("IPA_VERIF_DIR"), "/.build/playback/report_hybrid_info.rs"));
