// engine K harnesses for module hook 'report_hybrid_info' (included under cfg(kani) by /repo)

#[cfg(test)]
include!(concat!(env!("IPA_VERIF_DIR"), "/.build/playback/report_hybrid_info.rs"));
