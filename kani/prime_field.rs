// engine K harnesses for module hook 'prime_field' (included under cfg(kani) by /repo)

#[cfg(test)]
include!(concat!(env!("IPA_VERIF_DIR"), "/.build/playback/prime_field.rs"));
