// engine K — ff/prime_field.rs, module level (property C08): the generic `PrimeField::invert` and `batch_invert`
// exercised exhaustively on the 31-element field. The unbounded statement for all three fields is the Verus
// unit (verus/invert.py); this unit is its witness source and a cross-check on the unsubstituted code.
use super::*;
use crate::ff::U128Conversions;

/// every non-zero element of Fp31 has a canonical multiplicative inverse: the 30 elements are enumerated
/// concretely (the Euclid loop's symbolic 128-bit divisions do not finish otherwise), so this is exhaustive.
#[kani::proof]
#[kani::unwind(33)]
fn c08_invert_fp31_exhaustive() {
    kani::cover!(true);
    let mut v = 1u32;
    while v < 31 {
        let a = Fp31::truncate_from(v);
        let r = a.invert();
        assert!(r.as_u128() < 31);
        assert!((r.as_u128() * a.as_u128()) % 31 == 1);
        v += 1;
    }
}

#[cfg(test)]
include!(concat!(env!("IPA_VERIF_DIR"), "/.build/playback/prime_field.rs"));
