// engine K harnesses for module hook 'input' (included under cfg(kani) by /repo)

#[cfg(test)]
include!(concat!(env!("IPA_VERIF_DIR"), "/.build/playback/input.rs"));
