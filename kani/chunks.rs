// engine K — helpers/stream/chunks.rs (property C17: fixed-width chunking with zero padding of the tail chunk)
use std::future::{Ready, ready};

use super::*;

// what the processing function was called with (index -> chunk contents), recorded instead of polling the returned
// futures: dropping / polling `Result<_, Error>` futures drags the whole `Error` drop glue into the formula
// (measured: 18 GB and > 10 min) without adding anything to the chunking contract.
static mut SEEN: [[u8; 3]; 4] = [[0; 3]; 4];
static mut CALLS: usize = 0;
static mut LAST_IDX: usize = 0;

/// `process_slice_by_chunks` (SliceChunkProcessor) over `slice` (symbolic contents, symbolic length <= MAX) with chunk width N:
///   chunk i carries slice[N*i .. N*i+N]; the tail chunk carries the remaining len % N items followed by
///   T::default() padding and is typed Partial(len % N), all others Full; exactly ceil(len/N) chunks, then
///   None forever; the index passed to the processing function is i; no panic.
macro_rules! slice_chunks {
    ($name:ident, $n:expr, $max:expr, $unwind:expr) => {
        #[kani::proof]
        #[kani::unwind($unwind)]
        fn $name() {
            const N: usize = $n;
            const MAX: usize = $max;
            let data: [u8; MAX] = kani::any();
            let len: usize = kani::any();
            kani::assume(len <= MAX);
            let slice = &data[..len];
            let mut p = std::pin::pin!(process_slice_by_chunks::<u8, (), _, Ready<Result<(), Error>>, N>(
                slice,
                |idx, d: ChunkData<'_, u8, N>| {
                    unsafe {
                        let mut k = 0;
                        while k < N {
                            SEEN[idx % 4][k] = d[k];
                            k += 1;
                        }
                        CALLS += 1;
                        LAST_IDX = idx;
                    }
                    ready(Ok(()))
                },
            ));
            let waker = futures::task::noop_waker();
            let mut cx = Context::from_waker(&waker);
            kani::cover!(len == MAX);
            kani::cover!(len % N != 0);
            kani::cover!(len == 0);
            let mut i = 0usize;
            loop {
                let Poll::Ready(next) = p.as_mut().poll_next(&mut cx) else {
                    assert!(false, "the chunk stream is always ready");
                    return;
                };
                match next {
                    None => break,
                    Some(cf) => {
                        assert!(N * i < len, "more chunks than ceil(len/N)");
                        let full = N * i + N <= len;
                        match cf.chunk_type {
                            ChunkType::Full => assert!(full),
                            ChunkType::Partial(n) => assert!(!full && n == len - N * i && n > 0),
                        }
                        std::mem::forget(cf);
                        let (calls, last, seen) = unsafe { (CALLS, LAST_IDX, SEEN[i % 4]) };
                        assert!(calls == i + 1 && last == i, "the processing function is called once per chunk with the chunk index");
                        let k: usize = kani::any();
                        kani::assume(k < N);
                        if N * i + k < len {
                            assert!(seen[k] == data[N * i + k]);
                        } else {
                            assert!(seen[k] == 0, "tail padding must be T::default()");
                        }
                        i += 1;
                    }
                }
            }
            assert!(i == (len + N - 1) / N);
            assert!(matches!(p.as_mut().poll_next(&mut cx), Poll::Ready(None)), "None forever after the end");
        }
    };
}
slice_chunks!(c17_slice_chunks_n2, 2, 5, 7);
slice_chunks!(c17_slice_chunks_n3, 3, 7, 9);

/// Chunk::unpack::<M> on a well-formed Chunk<Vec<T>, N> (N = 4, M = 2): sub-chunk valid lengths sum to the
/// chunk's valid length, all but the last are Full, order is kept, surplus sub-chunks are dropped, no panic.
#[kani::proof]
#[kani::unwind(5)]
fn c17_chunk_unpack() {
    let partial: bool = kani::any();
    let plen: usize = kani::any();
    kani::assume(plen >= 1 && plen <= 3);
    let nsub: usize = kani::any();
    let valid = if partial { plen } else { 4 };
    // well-formed: between ceil(valid/2) and 2 sub-chunks (exactly 2 when full)
    kani::assume(nsub <= 2 && nsub >= (valid + 1) / 2 && (partial || nsub == 2));
    let tags: [u8; 2] = kani::any();
    let mut v = Vec::with_capacity(2);
    if nsub >= 1 {
        v.push(tags[0]);
    }
    if nsub >= 2 {
        v.push(tags[1]);
    }
    let c: Chunk<Vec<u8>, 4> = Chunk { chunk_type: if partial { ChunkType::Partial(plen) } else { ChunkType::Full }, data: v };
    kani::cover!(partial && plen == 1 && nsub == 2);
    kani::cover!(partial && plen == 3);
    kani::cover!(!partial);
    let out = c.unpack::<2>();
    assert!(out.len() == (valid + 1) / 2);
    let mut total = 0usize;
    for (i, sc) in out.iter().enumerate() {
        assert!(sc.data == tags[i]);
        match sc.chunk_type {
            ChunkType::Full => total += 2,
            ChunkType::Partial(n) => {
                assert!(n == 1 && i + 1 == out.len());
                total += n;
            }
        }
    }
    assert!(total == valid);
}

#[cfg(test)]
include!(concat!(env!("IPA_VERIF_DIR"), "/.build/playback/chunks.rs"));
