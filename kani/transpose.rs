// engine K harnesses for module hook 'transpose' (included under cfg(kani) by /repo)

#[cfg(test)]
include!(concat!(env!("IPA_VERIF_DIR"), "/.build/playback/transpose.rs"));
