// engine K — secret_sharing/vector/transpose.rs (property C09: layout changes are lossless)
use super::*;

fn bit8(m: &[u8; 8], row: usize, col: usize) -> u8 {
    (m[row] >> col) & 1
}
/// 16x16 bit matrix stored as 16 little-endian u16 rows
fn bit16(m: &[u8; 32], row: usize, col: usize) -> u8 {
    (m[2 * row + col / 8] >> (col % 8)) & 1
}

/// out[j].bit(i) == in[i].bit(j) for all i, j
#[kani::proof]
fn c09_transpose_8x8() {
    let x: [u8; 8] = kani::any();
    let y = transpose_8x8(x);
    let i: usize = kani::any();
    let j: usize = kani::any();
    kani::assume(i < 8 && j < 8);
    kani::cover!(i == 7 && j == 0);
    kani::cover!(i != j);
    assert!(bit8(&y, j, i) == bit8(&x, i, j));
}

/// transposing twice is the identity (lossless inverse)
#[kani::proof]
fn c09_transpose_8x8_involution() {
    let x: [u8; 8] = kani::any();
    kani::cover!(x[3] == 0x5a);
    let y = transpose_8x8(transpose_8x8(x));
    assert!(y == x);
}

#[kani::proof]
#[kani::unwind(6)]
fn c09_transpose_16x16() {
    let x: [u8; 32] = kani::any();
    let y = transpose_16x16(&x);
    let i: usize = kani::any();
    let j: usize = kani::any();
    kani::assume(i < 16 && j < 16);
    kani::cover!(i == 15 && j == 0);
    kani::cover!(i < 8 && j >= 8);
    assert!(bit16(&y, j, i) == bit16(&x, i, j));
}

#[kani::proof]
#[kani::unwind(6)]
fn c09_transpose_16x16_involution() {
    let x: [u8; 32] = kani::any();
    kani::cover!(x[17] == 0xa5);
    let y = transpose_16x16(&transpose_16x16(&x));
    let k: usize = kani::any();
    kani::assume(k < 32);
    assert!(y[k] == x[k]);
}

/// index plumbing of the blocked transpose: block (i,j) of the source lands, transposed, in block (j,i),
/// every block is visited exactly once (2x3 blocks).
#[kani::proof]
#[kani::unwind(34)]
fn c09_do_transpose_16_blocks() {
    let seed: [u8; 32] = kani::any();
    let mut seen = [[0u8; 2]; 3];
    let mut ok = true;
    do_transpose_16(
        2,
        3,
        |i, j| {
            let mut m = seed;
            m[0] = (i * 3 + j) as u8;
            m
        },
        |j, i, m_t| {
            seen[j][i] += 1;
            let mut m = seed;
            m[0] = (i * 3 + j) as u8;
            ok &= m_t == transpose_16x16(&m);
        },
    );
    kani::cover!(true);
    assert!(ok);
    assert!(seen == [[1u8; 2]; 3]);
}

#[cfg(test)]
include!(concat!(env!("IPA_VERIF_DIR"), "/.build/playback/transpose.rs"));
