// engine K — query/state.rs (property C18)
use super::*;

fn any_status() -> QueryStatus {
    match kani::any::<u8>() % 5 {
        0 => QueryStatus::Preparing,
        1 => QueryStatus::AwaitingInputs,
        2 => QueryStatus::Running,
        3 => QueryStatus::AwaitingCompletion,
        _ => QueryStatus::Completed,
    }
}

/// Spec: position in the lifecycle order of the property statement.
fn rank(s: QueryStatus) -> u8 {
    match s {
        QueryStatus::Preparing => 0,
        QueryStatus::AwaitingInputs => 1,
        QueryStatus::Running => 2,
        QueryStatus::AwaitingCompletion => 3,
        QueryStatus::Completed => 4,
    }
}

/// C18/min_status: total, = the least advanced of the two, commutative, idempotent.
#[kani::proof]
fn c18_min_status() {
    let a = any_status();
    let b = any_status();
    kani::cover!(rank(a) < rank(b));
    kani::cover!(rank(a) > rank(b));
    let m = min_status(a, b);
    assert!(rank(m) == core::cmp::min(rank(a), rank(b)));
    assert!(m == min_status(b, a));
    assert!(min_status(a, a) == a);
}

// ---- transition table ------------------------------------------------------------------------------------
use crate::{
    ff::FieldType,
    helpers::{HelperIdentity, query::QueryType},
};

fn cfg() -> QueryConfig {
    match QueryConfig::new(QueryType::TestMultiply, FieldType::Fp31, 1usize) {
        Ok(c) => c,
        Err(_) => {
            kani::assume(false);
            unreachable!()
        }
    }
}
fn roles() -> RoleAssignment {
    RoleAssignment::new(HelperIdentity::make_three())
}
/// states that can be built without a live tokio task: 0 Empty, 1 Preparing, 2 AwaitingInputs,
/// 3 AwaitingCompletion, 4 Completed
fn mk(k: u8) -> QueryState {
    match k {
        0 => QueryState::Empty,
        1 => QueryState::Preparing(cfg()),
        2 => QueryState::AwaitingInputs(cfg(), roles()),
        3 => QueryState::AwaitingCompletion,
        _ => QueryState::Completed(Err(crate::error::Error::MaliciousRevealFailed)),
    }
}

/// C18/transition: for every current state in {Empty, Preparing, AwaitingInputs, AwaitingCompletion, Completed}
/// and every requested state in {Preparing, AwaitingInputs}: Ok exactly for Empty->Preparing,
/// Empty->AwaitingInputs, Preparing->AwaitingInputs (the query only moves forward); a second Preparing is
/// AlreadyRunning; everything else is InvalidState{from = status(cur)}; never a panic; Ok returns the new state.
#[kani::proof]
fn c18_transition_table() {
    let c: u8 = kani::any();
    let n: u8 = kani::any();
    kani::assume(c < 5 && n >= 1 && n <= 2);
    kani::cover!(c == 0 && n == 2);
    kani::cover!(c == 4 && n == 2);
    kani::cover!(c == 1 && n == 1);
    let cur = mk(c);
    let r = QueryState::transition(&cur, mk(n));
    let allowed = (c == 0 && (n == 1 || n == 2)) || (c == 1 && n == 2);
    match r {
        Ok(s) => {
            assert!(allowed);
            assert!(rank(QueryStatus::from(&s)) == n - 1);
        }
        Err(StateError::AlreadyRunning) => assert!(!allowed && n == 1),
        Err(StateError::InvalidState { from, to }) => {
            assert!(!allowed && n == 2);
            assert!(from == QueryStatus::from(&cur));
            assert!(to == QueryStatus::AwaitingInputs);
        }
    }
}

/// C18: QueryStatus::from(&QueryState) names the state it is given (non-Empty states)
#[kani::proof]
fn c18_status_of_state() {
    let c: u8 = kani::any();
    kani::assume(c >= 1 && c < 5);
    kani::cover!(c == 4);
    let st = QueryStatus::from(&mk(c));
    let expect = match c {
        1 => QueryStatus::Preparing,
        2 => QueryStatus::AwaitingInputs,
        3 => QueryStatus::AwaitingCompletion,
        _ => QueryStatus::Completed,
    };
    assert!(st == expect);
}

#[cfg(test)]
include!(concat!(env!("IPA_VERIF_DIR"), "/.build/playback/query_state.rs"));
