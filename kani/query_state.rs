// engine K — query/state.rs (property C18)
use super::*;

fn any_status() -> QueryStatus {
    match kani::any::<u8>() % 5 {
        0 => QueryStatus::Preparing,
        1 => QueryStatus::AwaitingInputs,
        2 => QueryStatus::Running,
        3 => QueryStatus::AwaitingCompletion,
        _ => QueryStatus::Completed,
    }
}

/// Spec: position in the lifecycle order of the property statement.
fn rank(s: QueryStatus) -> u8 {
    match s {
        QueryStatus::Preparing => 0,
        QueryStatus::AwaitingInputs => 1,
        QueryStatus::Running => 2,
        QueryStatus::AwaitingCompletion => 3,
        QueryStatus::Completed => 4,
    }
}

/// C18/min_status: total, = the least advanced of the two, commutative, idempotent.
#[kani::proof]
fn c18_min_status() {
    let a = any_status();
    let b = any_status();
    kani::cover!(rank(a) < rank(b));
    kani::cover!(rank(a) > rank(b));
    let m = min_status(a, b);
    assert!(rank(m) == core::cmp::min(rank(a), rank(b)));
    assert!(m == min_status(b, a));
    assert!(min_status(a, a) == a);
}

#[cfg(test)]
include!(concat!(env!("IPA_VERIF_DIR"), "/.build/playback/query_state.rs"));
