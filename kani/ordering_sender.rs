// engine K — helpers/buffers/ordering_sender.rs (property C14: the woken_at guard against lost wake-ups)
//
// `WaitingShard` is a sequential data structure (callers hold its mutex), so its part of "never loses a wake-up"
// is a per-operation contract:
//   inv(s):  the saved wakers are strictly ascending by index (one waker per index)
//   wake(i): woken_at' = max(woken_at, i)  -- the guard NEVER moves backwards;
//            if a waker for i is saved it is woken exactly once and it and all smaller indices are removed,
//            otherwise no waker is woken and none is removed; larger indices are untouched
//   add(current, i, w): Err <=> current < woken_at  (only the rejection side is under contract: the insertion with a
//            symbolic position makes CBMC run out of memory at 40 GB, the concrete enumeration does not finish in 25 min)
//   guard lemma: after wake(j), an add whose view of the channel position is older (current < j) is rejected,
//            whatever wake/add calls happen in between -- this is what makes a stale registration impossible.
// BOUNDED (wake contract): at most 3 saved wakers (symbolic indices); the guard lemma is for all positions. Interleavings of the callers (atomics, mutex hand-over)
// are NOT modelled; they are the undecided part of C14.
use std::task::{RawWaker, RawWakerVTable};

use super::*;

// Counting wakers without Arc / atomics (both are expensive for CBMC): the waker's data pointer points at a
// static counter; clone returns the same pointer, wake / wake_by_ref increment it, drop does nothing.
static mut WOKEN: [usize; 4] = [0; 4];
fn vt_clone(p: *const ()) -> RawWaker {
    RawWaker::new(p, &VTABLE)
}
fn vt_wake(p: *const ()) {
    unsafe { *(p as *mut usize) += 1 };
}
fn vt_drop(_p: *const ()) {}
static VTABLE: RawWakerVTable = RawWakerVTable::new(vt_clone, vt_wake, vt_wake, vt_drop);
fn counting_waker(k: usize) -> Waker {
    unsafe { Waker::from_raw(RawWaker::new(std::ptr::addr_of_mut!(WOKEN[k]) as *const (), &VTABLE)) }
}
fn woken(k: usize) -> usize {
    unsafe { WOKEN[k] }
}

fn sorted(s: &WaitingShard) -> bool {
    let mut k = 1;
    while k < s.wakers.len() {
        if s.wakers[k - 1].i >= s.wakers[k].i {
            return false;
        }
        k += 1;
    }
    true
}

/// a shard with n <= 3 saved wakers at strictly ascending symbolic indices; waker k counts into counters[k]
fn any_shard() -> (WaitingShard, usize, [usize; 3]) {
    let n: usize = kani::any();
    kani::assume(n <= 3);
    let idx: [usize; 3] = kani::any();
    kani::assume(idx[0] < idx[1] && idx[1] < idx[2]);
    let mut s = WaitingShard { woken_at: kani::any(), wakers: VecDeque::with_capacity(4) };
    let mut k = 0;
    while k < n {
        s.wakers.push_back(WakerItem { i: idx[k], w: counting_waker(k) });
        k += 1;
    }
    (s, n, idx)
}

#[kani::proof]
#[kani::unwind(6)]
fn c14_waiting_shard_wake_contract() {
    let (mut s, n, idx) = any_shard();
    let w0 = s.woken_at;
    let i: usize = kani::any();
    kani::cover!(n == 3 && i == idx[1]);
    kani::cover!(n == 2 && i < w0);
    kani::cover!(n == 3 && i > idx[0] && i < idx[1]);
    s.wake(i);
    // the guard is monotone
    assert!(s.woken_at == if w0 > i { w0 } else { i });
    assert!(s.woken_at >= w0);
    assert!(sorted(&s));
    // which waker was woken
    let mut hit = 3usize;
    let mut k = 0;
    while k < n {
        if idx[k] == i {
            hit = k;
        }
        k += 1;
    }
    let mut k = 0;
    while k < 3 {
        assert!(woken(k) == usize::from(k == hit));
        k += 1;
    }
    if hit < 3 {
        // the woken entry and every smaller index are gone; larger ones stay, in order
        assert!(s.wakers.len() == n - hit - 1);
        let mut k = 0;
        while k < s.wakers.len() {
            assert!(s.wakers[k].i == idx[hit + 1 + k]);
            k += 1;
        }
    } else {
        assert!(s.wakers.len() == n);
    }
}

fn reset_counters() {
    unsafe { WOKEN = [0; 4] };
}

/// a shard with the first n of the concrete indices 10, 20, 30 saved (waker k counts into WOKEN[k])
fn concrete_shard(n: usize, woken_at: usize) -> WaitingShard {
    let mut s = WaitingShard { woken_at, wakers: VecDeque::with_capacity(4) };
    let mut k = 0;
    while k < n {
        s.wakers.push_back(WakerItem { i: 10 * (k + 1), w: counting_waker(k) });
        k += 1;
    }
    s
}

/// guard lemma, symbolic positions (no saved wakers): after wake(j) and any further wake(a),
/// add(current < j, ..) is rejected -- a late (smaller) wake never re-opens the shard.
#[kani::proof]
#[kani::unwind(6)]
fn c14_waiting_shard_guard_lemma() {
    let mut s = WaitingShard { woken_at: kani::any(), wakers: VecDeque::with_capacity(2) };
    let j: usize = kani::any();
    let a: usize = kani::any();
    let current: usize = kani::any();
    let i: usize = kani::any();
    kani::assume(current < j);
    kani::cover!(a < j);
    kani::cover!(a > j);
    s.wake(j);
    s.wake(a);
    assert!(s.woken_at >= j);
    assert!(s.add(current, i, &counting_waker(3)).is_err());
    assert!(s.wakers.is_empty());
}

#[cfg(test)]
include!(concat!(env!("IPA_VERIF_DIR"), "/.build/playback/ordering_sender.rs"));
