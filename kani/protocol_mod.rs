// engine K — protocol/mod.rs (property C06: record ids convert to PRSS indices without aliasing)
use super::*;

/// RecordId <-> integer conversions are exact on 0..=u32::MAX, `+ usize` is exact when the sum fits
/// (outside that range the code panics; it never wraps to an earlier id).
#[kani::proof]
fn c06_record_id_arith() {
    let v: usize = kani::any();
    kani::assume(v <= u32::MAX as usize);
    let d: usize = kani::any();
    kani::assume(d <= u32::MAX as usize - v);
    kani::cover!(v + d == u32::MAX as usize && d > 0);
    let r = RecordId::from(v);
    assert!(usize::from(r) == v && u32::from(r) as usize == v && u128::from(r) == v as u128);
    assert!(usize::from(r + d) == v + d);
    let mut s = r;
    s += d;
    assert!(usize::from(s) == v + d);
    // record id -> PRSS index is the identity on the integer
    let p = crate::protocol::prss::PrssIndex::from(r);
    assert!(p == crate::protocol::prss::PrssIndex::from(v as u32));
}

#[cfg(test)]
include!(concat!(env!("IPA_VERIF_DIR"), "/.build/playback/protocol_mod.rs"));
