// engine K harnesses for module hook 'protocol_mod' (included under cfg(kani) by /repo)

#[cfg(test)]
include!(concat!(env!("IPA_VERIF_DIR"), "/.build/playback/protocol_mod.rs"));
