// engine K — protocol/ipa_prf/oprf_padding/insecure.rs (property C12: parameter validation of the padding sampler)
use super::*;

/// an OPRFPaddingDp whose truncation point is `shift` (used by the C12 harnesses in protocol/dp)
pub(crate) fn mk_padding_dp(shift: u32) -> OPRFPaddingDp {
    OPRFPaddingDp {
        epsilon: 1.0,
        delta: 0.5,
        sensitivity: 1,
        truncated_double_geometric: super::super::distributions::verif_kani::mk_truncated_double_geometric(shift),
    }
}

/// assumed contract of `find_smallest_n` (transcendental floats, unbounded search: not verified):
/// returns some n with big_delta <= n <= 1_000_000
fn stub_find_smallest_n(big_delta: u32, _epsilon: f64, _small_delta: f64) -> u32 {
    let n: u32 = kani::any();
    kani::assume(n >= big_delta && n <= 1_000_000);
    n
}

/// OPRFPaddingDp::new accepts exactly: epsilon >= MIN_POSITIVE, MIN_POSITIVE <= delta <= 1 - MIN_POSITIVE,
/// sensitivity <= 1_000_000 (epsilon restricted to <= 1e300 so that 1/epsilon is a normal float), and then the
/// truncation point is at least the sensitivity (every noise value -sens..=sens is inside the support).
#[kani::proof]
#[kani::stub(find_smallest_n, stub_find_smallest_n)]
fn c12_padding_dp_new_validation() {
    let eps: f64 = kani::any();
    let delta: f64 = kani::any();
    let sens: u32 = kani::any();
    kani::assume(!eps.is_nan() && !delta.is_nan() && eps <= 1e300);
    let expect = eps >= f64::MIN_POSITIVE
        && delta >= f64::MIN_POSITIVE
        && delta <= 1.0 - f64::MIN_POSITIVE
        && sens <= 1_000_000;
    kani::cover!(expect);
    kani::cover!(!expect && eps > 0.0 && delta > 0.0);
    match OPRFPaddingDp::new(eps, delta, sens) {
        Ok(d) => {
            assert!(expect);
            assert!(d.get_shift() >= sens && d.get_shift() <= 1_000_000);
            assert!(d.truncated_double_geometric.shift_doubled == 2 * d.get_shift());
        }
        Err(_) => assert!(!expect),
    }
}

#[cfg(test)]
include!(concat!(env!("IPA_VERIF_DIR"), "/.build/playback/oprf_insecure.rs"));
