// engine K — protocol/ipa_prf/oprf_padding/insecure.rs (property C12: parameter validation of the padding sampler)
use super::*;

/// an OPRFPaddingDp whose truncation point is `shift` (used by the C12 harnesses in protocol/dp)
pub(crate) fn mk_padding_dp(shift: u32) -> OPRFPaddingDp {
    OPRFPaddingDp {
        epsilon: 1.0,
        delta: 0.5,
        sensitivity: 1,
        truncated_double_geometric: super::super::distributions::verif_kani::mk_truncated_double_geometric(shift),
    }
}

/// assumed contract of `find_smallest_n` (transcendental floats, unbounded search: not verified):
/// returns some n with big_delta <= n <= 1_000_000
fn stub_find_smallest_n(big_delta: u32, _epsilon: f64, _small_delta: f64) -> u32 {
    let n: u32 = kani::any();
    kani::assume(n >= big_delta && n <= 1_000_000);
    n
}

/// OPRFPaddingDp::new, validation prefix: the three range errors are raised exactly for the documented
/// out-of-range parameters, in the documented order: epsilon < MIN_POSITIVE -> BadEpsilon; else delta outside
/// [MIN_POSITIVE, 1 - MIN_POSITIVE] -> BadDelta; else sensitivity > 1_000_000 -> BadSensitivity; in-range parameters
/// never produce one of these three errors, and when the constructor succeeds the truncation point is at least the
/// sensitivity (every noise value -sens..=sens is inside the support). Whether the float code behind the prefix
/// (`powf`, Bernoulli::new) succeeds for extreme epsilon is NOT decided (CBMC models powf as an unconstrained value).
#[kani::proof]
#[kani::stub(find_smallest_n, stub_find_smallest_n)]
fn c12_padding_dp_new_validation() {
    let eps: f64 = kani::any();
    let delta: f64 = kani::any();
    let sens: u32 = kani::any();
    // finite parameters only: CBMC's float model flags `1.0 / inf` as a possible NaN
    kani::assume(eps.is_finite() && delta.is_finite());
    let bad_eps = eps < f64::MIN_POSITIVE;
    let bad_delta = !(delta >= f64::MIN_POSITIVE && delta <= 1.0 - f64::MIN_POSITIVE);
    let bad_sens = sens > 1_000_000;
    kani::cover!(!bad_eps && !bad_delta && !bad_sens);
    kani::cover!(!bad_eps && bad_delta);
    kani::cover!(!bad_eps && !bad_delta && bad_sens);
    match OPRFPaddingDp::new(eps, delta, sens) {
        Ok(d) => {
            assert!(!bad_eps && !bad_delta && !bad_sens);
            assert!(d.get_shift() >= sens && d.get_shift() <= 1_000_000);
            assert!(d.truncated_double_geometric.shift_doubled == 2 * d.get_shift());
        }
        Err(Error::BadEpsilon(_)) => assert!(bad_eps),
        Err(Error::BadDelta(_)) => assert!(!bad_eps && bad_delta),
        Err(Error::BadSensitivity(_)) => assert!(!bad_eps && !bad_delta && bad_sens),
        Err(_) => assert!(!bad_eps && !bad_delta && !bad_sens),
    }
}

#[cfg(test)]
include!(concat!(env!("IPA_VERIF_DIR"), "/.build/playback/oprf_insecure.rs"));
