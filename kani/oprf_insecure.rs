// engine K harnesses for module hook 'oprf_insecure' (included under cfg(kani) by /repo)

#[cfg(test)]
include!(concat!(env!("IPA_VERIF_DIR"), "/.build/playback/oprf_insecure.rs"));
