// engine K harnesses for module hook 'send' (included under cfg(kani) by /repo)

#[cfg(test)]
include!(concat!(env!("IPA_VERIF_DIR"), "/.build/playback/send.rs"));
