// engine K — helpers/gateway/send.rs (property C13: capacity / read-size alignment rule)
//
// The statement for *all* powers of two `active`, all record sizes and read sizes is the Verus unit
// (verus/send_config). These units run the *unsubstituted* real `SendChannelConfig::new_with` on a grid of
// concrete (active, record_size) with a symbolic configured read size and every kind of TotalRecords — a bounded
// cross-check that the weave's substitutions are faithful (CBMC does not finish with symbolic 64-bit divisors).
use super::*;
use crate::utils::NonZeroU32PowerOfTwo;

fn any_total() -> TotalRecords {
    match kani::any::<u8>() % 3 {
        0 => TotalRecords::Unspecified,
        1 => {
            let n: usize = kani::any();
            match NonZeroUsize::new(n) {
                Some(n) => TotalRecords::Specified(n),
                None => TotalRecords::Indeterminate,
            }
        }
        _ => TotalRecords::Indeterminate,
    }
}

/// the rule, as the property states it
fn check(active: usize, record_size: usize) {
    let read_cfg: usize = kani::any();
    kani::assume(read_cfg >= 1 && read_cfg <= (1 << 20));
    let Ok(act) = NonZeroU32PowerOfTwo::try_from(active) else {
        kani::assume(false);
        unreachable!()
    };
    let Some(rs) = NonZeroUsize::new(read_cfg) else {
        kani::assume(false);
        unreachable!()
    };
    let total = any_total();
    let indeterminate = total.is_indeterminate();
    let cfg = GatewayConfig { active: act, read_size: rs, ..Default::default() };
    // no panic: the function's own asserts hold
    let c = SendChannelConfig::new_with(cfg, total, record_size);
    let (cap, rsz, rec) = (c.total_capacity.get(), c.read_size.get(), c.record_size.get());
    assert!(rec == record_size);
    assert!(cap == active * record_size);
    assert!(rsz > 0 && rsz <= cap);
    assert!(rsz % record_size == 0);
    assert!(cap % rsz == 0);
    assert!((rsz / record_size).is_power_of_two());
    if indeterminate {
        assert!(rsz == record_size);
    } else {
        // as close to the configured read size as a power-of-two multiple allows
        assert!(rsz <= read_cfg || rsz == record_size);
        assert!(rsz == cap || 2 * rsz > read_cfg);
    }
}

macro_rules! grid {
    ($name:ident, $rec:expr) => {
        #[kani::proof]
        #[kani::unwind(19)]
        fn $name() {
            kani::cover!(true);
            for k in 0..=16u32 {
                check(1usize << k, $rec);
            }
        }
    };
}
grid!(c13_send_config_grid_rec1, 1);
grid!(c13_send_config_grid_rec2, 2);
grid!(c13_send_config_grid_rec3, 3);
grid!(c13_send_config_grid_rec4, 4);
grid!(c13_send_config_grid_rec8, 8);
grid!(c13_send_config_grid_rec12, 12);
grid!(c13_send_config_grid_rec16, 16);
grid!(c13_send_config_grid_rec24, 24);
grid!(c13_send_config_grid_rec32, 32);
grid!(c13_send_config_grid_rec96, 96);
grid!(c13_send_config_grid_rec4097, 4097);

/// C13 ("a channel closes exactly when its declared record count has been sent"): the predicate that
/// `GatewaySender::send` uses to close the channel: `is_last(r)` <=> the count is specified as n and r = n - 1;
/// never for unspecified / indeterminate counts; a zero count cannot be constructed.
#[kani::proof]
fn c13_total_records_is_last() {
    let n: usize = kani::any();
    let r: u32 = kani::any();
    kani::cover!(n > 0 && r as usize == n - 1);
    kani::cover!(n == 0);
    match TotalRecords::specified(n) {
        Ok(t) => {
            assert!(n > 0 && t.count() == Some(n) && t.is_specified() && !t.is_indeterminate());
            assert!(t.is_last(RecordId::from(r)) == (r as usize == n - 1));
        }
        Err(_) => assert!(n == 0),
    }
    assert!(!TotalRecords::Unspecified.is_last(RecordId::from(r)) && !TotalRecords::Indeterminate.is_last(RecordId::from(r)));
    assert!(!TotalRecords::Unspecified.is_specified() && TotalRecords::Indeterminate.is_specified());
    assert!(TotalRecords::Unspecified.count().is_none() && TotalRecords::Indeterminate.count().is_none());
}

#[cfg(test)]
include!(concat!(env!("IPA_VERIF_DIR"), "/.build/playback/send.rs"));
