// engine K — protocol/ipa_prf/oprf_padding/distributions.rs: constructor of the opaque sampler state for the
// C12 harnesses in protocol/dp (the sampler itself is never run: probability laws are out of reach).
use super::*;

/// a TruncatedDoubleGeometric with truncation point `shift` (support 0..=2*shift); inner sampler state arbitrary
pub(crate) fn mk_truncated_double_geometric(shift: u32) -> TruncatedDoubleGeometric {
    let Ok(bernoulli) = Bernoulli::new(0.5) else {
        kani::assume(false);
        unreachable!()
    };
    TruncatedDoubleGeometric {
        shift_doubled: 2 * shift,
        double_geometric: DoubleGeometric { shift, geometric: Geometric { bernoulli } },
    }
}

#[cfg(test)]
include!(concat!(env!("IPA_VERIF_DIR"), "/.build/playback/oprf_distributions.rs"));
