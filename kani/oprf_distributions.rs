// engine K — protocol/ipa_prf/oprf_padding/distributions.rs: constructor of the opaque sampler state for the
// C12 harnesses in protocol/dp (the sampler itself is never run: probability laws are out of reach).
use super::*;

/// a TruncatedDoubleGeometric with truncation point `shift` (support 0..=2*shift); inner sampler state arbitrary
pub(crate) fn mk_truncated_double_geometric(shift: u32) -> TruncatedDoubleGeometric {
    let Ok(bernoulli) = Bernoulli::new(0.5) else {
        kani::assume(false);
        unreachable!()
    };
    TruncatedDoubleGeometric {
        shift_doubled: 2 * shift,
        double_geometric: DoubleGeometric { shift, geometric: Geometric { bernoulli } },
    }
}

// ---- the deterministic skeleton of the sampler over an explicit coin tape (property C12: "rejection-sampled
// double geometric on [0, 2n]"). The probability of each coin is not modelled; what is decided is *which function
// of the coin sequence* the sampler computes:
//   Geometric          = number of failures before the first success
//   DoubleGeometric    = shift + G1 - G2
//   TruncatedDoubleGeometric = the first DoubleGeometric draw that lies in [0, 2*shift], unchanged; draws outside
//                              are rejected and redrawn (never clamped, folded or otherwise mapped into the range)
// BOUNDED: coin tapes of length <= 8.
const TAPE: usize = 8;
struct CoinTape {
    coins: [bool; TAPE],
    pos: usize,
}
impl rand::RngCore for CoinTape {
    fn next_u32(&mut self) -> u32 {
        (self.next_u64() >> 32) as u32
    }
    fn next_u64(&mut self) -> u64 {
        // a Bernoulli(1/2) draw succeeds iff the 64-bit word is below 2^63
        kani::assume(self.pos < TAPE);
        let c = self.coins[self.pos];
        self.pos += 1;
        if c { 0 } else { u64::MAX }
    }
    fn fill_bytes(&mut self, _d: &mut [u8]) {
        unreachable!()
    }
    fn try_fill_bytes(&mut self, _d: &mut [u8]) -> Result<(), rand::Error> {
        unreachable!()
    }
}

/// spec: read one geometric value off the tape starting at *pos
fn spec_geometric(coins: &[bool; TAPE], pos: &mut usize) -> i64 {
    let mut fails = 0i64;
    while *pos < TAPE && !coins[*pos] {
        fails += 1;
        *pos += 1;
    }
    *pos += 1; // the success
    fails
}

#[kani::proof]
#[kani::unwind(10)]
fn c12_rejection_sampler_skeleton() {
    let shift: u32 = kani::any();
    kani::assume(shift <= 2);
    let d = mk_truncated_double_geometric(shift);
    let mut rng = CoinTape { coins: kani::any(), pos: 0 };
    let coins = rng.coins;
    let r: u32 = d.sample(&mut rng);
    // independent replay of the tape
    let mut pos = 0usize;
    let mut expect: i64 = -1;
    let mut rejected_below = false;
    let mut rejected_above = false;
    let mut rounds = 0;
    while rounds < 4 && pos < TAPE {
        let g1 = spec_geometric(&coins, &mut pos);
        let g2 = spec_geometric(&coins, &mut pos);
        let v = i64::from(shift) + g1 - g2;
        if v >= 0 && v <= 2 * i64::from(shift) {
            expect = v;
            break;
        }
        rejected_below |= v < 0;
        rejected_above |= v > 2 * i64::from(shift);
        rounds += 1;
    }
    kani::cover!(rejected_below);
    kani::cover!(rejected_above);
    kani::cover!(r == 0 && shift > 0);
    kani::cover!(r == 2 * shift && shift > 0);
    assert!(expect >= 0, "the sampler returned although no in-range draw is on the tape");
    assert!(i64::from(r) == expect);
    assert!(rng.pos == pos, "the sampler consumes exactly the coins of the draws it made");
}

#[cfg(test)]
include!(concat!(env!("IPA_VERIF_DIR"), "/.build/playback/oprf_distributions.rs"));
