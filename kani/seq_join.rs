// engine K — seq_join/local.rs (property C15). BOUNDED: n futures, window w, at most `polls` calls of poll_next;
// the readiness of every future at every poll is nondeterministic, so every completion order inside the bound
// is explored. `periodic_memory_report` is replaced by a no-op (it reaches `tracing`, which crashes kani-compiler).
use std::future::Future;

use super::*;

static mut POLLS: [u32; 4] = [0; 4];
static mut DONE: [bool; 4] = [false; 4];

/// future number `i`: at each poll a nondeterministic coin decides whether it completes; yields `i`
struct Coin(usize);
impl Future for Coin {
    type Output = usize;
    fn poll(self: Pin<&mut Self>, _cx: &mut Context<'_>) -> Poll<usize> {
        unsafe {
            assert!(!DONE[self.0], "a completed future must never be polled again");
            POLLS[self.0] += 1;
        }
        if kani::any() {
            unsafe { DONE[self.0] = true };
            Poll::Ready(self.0)
        } else {
            Poll::Pending
        }
    }
}
fn polls() -> [u32; 4] {
    unsafe { POLLS }
}
fn done() -> [bool; 4] {
    unsafe { DONE }
}
fn noop_report(_c: usize) {}

fn drive<const N: usize>(w: usize, max_polls: usize, futs: [Coin; N]) -> (bool, usize) {
    let src = futures::stream::iter(futs);
    let Some(wnz) = NonZeroUsize::new(w) else { return (false, 0) };
    let mut sj = SequentialFutures::new(wnz, src);
    let waker = futures::task::noop_waker();
    let mut cx = Context::from_waker(&waker);
    let mut next = 0usize; // number of results delivered so far
    let mut ended = false;
    let mut poll_no = 0;
    while poll_no < max_polls && !ended {
        poll_no += 1;
        let before = polls();
        let r = Pin::new(&mut sj).poll_next(&mut cx);
        let after = polls();
        let fin = done();
        match r {
            Poll::Ready(Some(v)) => {
                assert!(v == next, "results are delivered in input order, each exactly once");
                assert!(v < N && fin[v]);
                next += 1;
            }
            Poll::Ready(None) => {
                assert!(next == N, "the stream ends only after every result was delivered");
                ended = true;
            }
            Poll::Pending => {
                assert!(next < N, "Pending although nothing is left");
                assert!(!fin[next], "head is complete but was not delivered");
                let inflight = if w < N - next { w } else { N - next };
                assert!(sj.active.len() == inflight, "window is kept full while input remains");
                // every in-flight, not yet complete future was polled exactly once by this call (N <= 3)
                let mut k = 0;
                while k < N {
                    if k >= next && k < next + inflight && !fin[k] {
                        assert!(after[k] == before[k] + 1);
                    }
                    k += 1;
                }
            }
        }
    }
    (ended, next)
}

#[kani::proof]
#[kani::unwind(6)]
#[kani::solver(kissat)]
#[kani::stub(crate::telemetry::memory::periodic_memory_report, noop_report)]
fn c15_seq_join_n1_w1() {
    let (ended, next) = drive::<1>(1, 3, [Coin(0)]);
    kani::cover!(ended);
    kani::cover!(next < 1);
}

#[kani::proof]
#[kani::unwind(7)]
#[kani::solver(kissat)]
#[kani::stub(crate::telemetry::memory::periodic_memory_report, noop_report)]
fn c15_seq_join_n2_w2() {
    let (ended, next) = drive::<2>(2, 4, [Coin(0), Coin(1)]);
    kani::cover!(ended);
    kani::cover!(next < 2);
}

/// window 3, two calls: a future that resolved out of order behind a blocked front must not stop the futures
/// behind it from being polled (only two calls of poll_next are needed to observe this; more exhaust memory)
#[kani::proof]
#[kani::unwind(7)]
#[kani::solver(kissat)]
#[kani::stub(crate::telemetry::memory::periodic_memory_report, noop_report)]
fn c15_seq_join_n3_w3_two_polls() {
    let (_ended, next) = drive::<3>(3, 2, [Coin(0), Coin(1), Coin(2)]);
    kani::cover!(next == 0);
    kani::cover!(next == 2);
}

#[cfg(test)]
include!(concat!(env!("IPA_VERIF_DIR"), "/.build/playback/seq_join.rs"));
