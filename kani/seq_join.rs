// engine K harnesses for module hook 'seq_join' (included under cfg(kani) by /repo)

#[cfg(test)]
include!(concat!(env!("IPA_VERIF_DIR"), "/.build/playback/seq_join.rs"));
