// engine K — secret_sharing/replicated/semi_honest/additive_share.rs (property C08: replicated-share arithmetic
// agrees with the plain field operations). complete-for-instance: Fp32BitPrime and Fp61BitPrime, N = 1.
use super::*;
use crate::ff::{Fp32BitPrime, Fp61BitPrime};

macro_rules! share_ops {
    ($name:ident, $f:ty) => {
        /// every linear operation acts componentwise with the field operation, so reconstruction
        /// (sum of the three helpers' left components) is a homomorphism
        #[kani::proof]
        #[kani::stub_verified(<$f as std::ops::Add>::add)]
        #[kani::stub_verified(<$f as std::ops::Sub>::sub)]
        #[kani::stub_verified(<$f as std::ops::Neg>::neg)]
        fn $name() {
            let (al, ar, bl, br): ($f, $f, $f, $f) = (kani::any(), kani::any(), kani::any(), kani::any());
            let a = AdditiveShare::<$f>::new(al, ar);
            let b = AdditiveShare::<$f>::new(bl, br);
            kani::cover!(true);
            assert!(a.left() == al && a.right() == ar && a.as_tuple() == (al, ar));
            let s = &a + &b;
            assert!(s.left() == al + bl && s.right() == ar + br);
            assert!(a.clone() + b.clone() == s && a.clone() + &b == s && &a + b.clone() == s);
            let d = &a - &b;
            assert!(d.left() == al - bl && d.right() == ar - br);
            assert!(a.clone() - b.clone() == d && a.clone() - &b == d && &a - b.clone() == d);
            let n = -&a;
            assert!(n.left() == -al && n.right() == -ar && -a.clone() == n);
            let mut x = a.clone();
            x += &b;
            assert!(x == s);
            let mut y = a.clone();
            y += b.clone();
            assert!(y == s);
            let mut z = a.clone();
            z -= &b;
            assert!(z == d);
            let mut w = a.clone();
            w -= b.clone();
            assert!(w == d);
            assert!(AdditiveShare::<$f>::from((al, ar)) == a);
            assert!(AdditiveShare::<$f>::ZERO.left() == <$f as SharedValue>::ZERO);
        }
    };
}
share_ops!(c08_share_linear_fp32, Fp32BitPrime);
share_ops!(c08_share_linear_fp61, Fp61BitPrime);

macro_rules! share_scale {
    ($name:ident, $f:ty) => {
        /// multiplication by a public scalar acts componentwise
        #[kani::proof]
        #[kani::stub_verified(<$f as std::ops::Mul>::mul)]
        #[kani::solver(z3)]
        fn $name() {
            let (al, ar, c): ($f, $f, $f) = (kani::any(), kani::any(), kani::any());
            let a = AdditiveShare::<$f>::new(al, ar);
            kani::cover!(true);
            let m = &a * &c;
            assert!(m.left() == al * c && m.right() == ar * c);
            assert!(a.clone() * c == m && a.clone() * &c == m && &a * c == m);
        }
    };
}
share_scale!(c08_share_scale_fp32, Fp32BitPrime);
share_scale!(c08_share_scale_fp61, Fp61BitPrime);

#[cfg(test)]
include!(concat!(env!("IPA_VERIF_DIR"), "/.build/playback/additive_share.rs"));
