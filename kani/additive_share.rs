// engine K harnesses for module hook 'additive_share' (included under cfg(kani) by /repo)

#[cfg(test)]
include!(concat!(env!("IPA_VERIF_DIR"), "/.build/playback/additive_share.rs"));
