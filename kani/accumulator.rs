// engine K — ff/accumulator.rs (property C08: deferred-reduction accumulators agree with the field operations)
//
// Abstract value of an `Accumulator<Fp61BitPrime, u128, 64>`:  abs(acc) = acc.value mod P.
// Representation invariant:  inv(acc) <=> count < 64  &&  value <= (P-1) + count*(P-1)^2
// (so that the next product can be added without overflowing u128).
use super::*;
use crate::ff::{Fp32BitPrime, Fp61BitPrime, PrimeField};

const P: u128 = Fp61BitPrime::PRIME as u128;
const INTERVAL: usize = 64;
type Acc = Accumulator<Fp61BitPrime, u128, INTERVAL>;
type AccArr2 = Accumulator<Fp61BitPrime, [u128; 2], INTERVAL>;

fn bound(count: usize) -> u128 {
    (P - 1) + (count as u128) * (P - 1) * (P - 1)
}
fn inv(a: &Acc) -> bool {
    a.count < INTERVAL && a.value <= bound(a.count)
}
fn any_acc() -> Acc {
    let a = Acc { value: kani::any(), count: kani::any(), phantom_data: PhantomData };
    kani::assume(inv(&a));
    a
}

/// the type-level choice of REDUCE_INTERVAL is the one the invariant is stated for, and the worst case fits in u128
#[kani::proof]
fn c08_acc_constants() {
    kani::cover!(true);
    let a: <Fp61BitPrime as MultiplyAccumulate>::Accumulator = MultiplyAccumulator::new();
    let _same_type: &Acc = &a;
    assert!(inv(&a) && a.value == 0);
    // 64 products on top of one field element never overflow: checked arithmetic below must not panic
    let worst = (INTERVAL as u128).checked_mul((P - 1) * (P - 1)).and_then(|x| x.checked_add(P - 1));
    assert!(worst.is_some());
    let f: Fp61BitPrime = kani::any();
    let from = Acc::from(f);
    assert!(inv(&from) && from.value == f.as_u128());
}

/// bound unit: one step preserves the invariant and the u128 arithmetic in `+=`/`*` cannot overflow
/// (overflow checks are Kani's implicit obligations inside multiply_accumulate).
#[kani::proof]
#[kani::stub_verified(Fp61BitPrime::modulo_prime_u128)]
fn c08_acc_step_bound() {
    let mut acc = any_acc();
    let a: Fp61BitPrime = kani::any();
    let b: Fp61BitPrime = kani::any();
    kani::cover!(acc.count == INTERVAL - 1);
    kani::cover!(acc.count == 0);
    acc.multiply_accumulate(a, b);
    assert!(inv(&acc));
}

// The units below state *which* integer is handed to the reduction and that its result is what is stored /
// returned, by comparing with the real `truncate_from` applied to the specification integer. That
// `truncate_from(x)` is the canonical element `x mod P` for every u128 is the callee's own proved contract
// (units c08_fp61_reduce_u128_contract, c08_fp61_truncate_from_any) -- the modular step: caller against callee.
// (`kani::stub` cannot replace a function that carries a contract, and `stub_verified` re-introduces a
//  128-bit `%` that costs minutes per harness; both measured.)
fn red(x: u128) -> u128 {
    Fp61BitPrime::truncate_from(x).as_u128()
}

/// value unit: value' = value + a*b exactly (count+1 < 64), or the reduction *of exactly that integer*
/// when the interval is reached, and then count' = 0
#[kani::proof]
#[kani::solver(z3)]
fn c08_acc_step_value() {
    let mut acc = any_acc();
    let (v0, c0) = (acc.value, acc.count);
    let a: Fp61BitPrime = kani::any();
    let b: Fp61BitPrime = kani::any();
    kani::cover!(c0 == INTERVAL - 1);
    kani::cover!(c0 < INTERVAL - 1);
    acc.multiply_accumulate(a, b);
    let sum = v0 + a.as_u128() * b.as_u128();
    if c0 + 1 < INTERVAL {
        assert!(acc.count == c0 + 1);
        assert!(acc.value == sum);
    } else {
        assert!(acc.count == 0);
        assert!(acc.value == red(sum));
    }
}

/// take() returns the reduction of exactly `value`
#[kani::proof]
#[kani::solver(z3)]
fn c08_acc_take() {
    let acc = any_acc();
    let v0 = acc.value;
    kani::cover!(v0 >= P);
    let r = acc.take();
    assert!(r.as_u128() == red(v0));
}

/// array accumulator, N = 2, value part: every lane behaves as the scalar accumulator. The precondition is only
/// "the next product fits" (value <= u128::MAX - (P-1)^2, a constant), which the invariant implies.
#[kani::proof]
#[kani::unwind(3)]
#[kani::solver(z3)]
fn c08_acc_array2_step() {
    const ROOM: u128 = u128::MAX - (P - 1) * (P - 1);
    let mut acc = AccArr2 { value: kani::any(), count: kani::any(), phantom_data: PhantomData };
    kani::assume(acc.count < INTERVAL && acc.value[0] <= ROOM && acc.value[1] <= ROOM);
    let (v0, c0) = (acc.value, acc.count);
    let a: [Fp61BitPrime; 2] = [kani::any(), kani::any()];
    let b: [Fp61BitPrime; 2] = [kani::any(), kani::any()];
    kani::cover!(c0 == INTERVAL - 1);
    kani::cover!(c0 < INTERVAL - 1);
    MultiplyAccumulatorArray::multiply_accumulate(&mut acc, &a, &b);
    let s0 = v0[0] + a[0].as_u128() * b[0].as_u128();
    let s1 = v0[1] + a[1].as_u128() * b[1].as_u128();
    if c0 + 1 < INTERVAL {
        assert!(acc.count == c0 + 1 && acc.value[0] == s0 && acc.value[1] == s1);
    } else {
        assert!(acc.count == 0 && acc.value[0] == red(s0) && acc.value[1] == red(s1));
    }
}

/// array accumulator, N = 2, bound part: the step preserves count < 64 and value[k] <= (P-1) + count*(P-1)^2
/// in both lanes (so the u128 additions can never overflow within an interval)
#[kani::proof]
#[kani::unwind(3)]
#[kani::stub_verified(Fp61BitPrime::modulo_prime_u128)]
fn c08_acc_array2_bound() {
    let mut acc = AccArr2 { value: kani::any(), count: kani::any(), phantom_data: PhantomData };
    kani::assume(acc.count < INTERVAL && acc.value[0] <= bound(acc.count) && acc.value[1] <= bound(acc.count));
    let a: [Fp61BitPrime; 2] = [kani::any(), kani::any()];
    let b: [Fp61BitPrime; 2] = [kani::any(), kani::any()];
    kani::cover!(acc.count == INTERVAL - 1);
    kani::cover!(acc.count == 0);
    MultiplyAccumulatorArray::multiply_accumulate(&mut acc, &a, &b);
    assert!(acc.count < INTERVAL);
    assert!(acc.value[0] <= bound(acc.count) && acc.value[1] <= bound(acc.count));
}

/// array take(), N = 2: lane i is the reduction of exactly value[i]
#[kani::proof]
#[kani::unwind(3)]
#[kani::solver(z3)]
fn c08_acc_array2_take() {
    let acc = AccArr2 { value: kani::any(), count: kani::any(), phantom_data: PhantomData };
    let v0 = acc.value;
    kani::cover!(true);
    let out = MultiplyAccumulatorArray::take(acc);
    assert!(out[0].as_u128() == red(v0[0]) && out[1].as_u128() == red(v0[1]));
}

/// generic (reduce-every-step) accumulator, instance Fp32BitPrime: acc' = acc + a*b with the field's own operators
/// (whose contracts are units c08_fp32_add_contract / c08_fp32_mul_contract)
#[kani::proof]
#[kani::solver(z3)]
fn c08_acc_generic_fp32() {
    let mut acc: Fp32BitPrime = kani::any();
    let v0 = acc;
    let a: Fp32BitPrime = kani::any();
    let b: Fp32BitPrime = kani::any();
    kani::cover!(true);
    let z: Fp32BitPrime = MultiplyAccumulator::new();
    assert!(z.as_u128() == 0);
    acc.multiply_accumulate(a, b);
    assert!(acc == v0 + a * b);
    assert!(MultiplyAccumulator::take(acc) == acc);
}

#[cfg(test)]
include!(concat!(env!("IPA_VERIF_DIR"), "/.build/playback/accumulator.rs"));
