// engine K — ff/prime_field.rs, `mod fp32*`: Fp32BitPrime (property C08). Shared text: kani/field_common.rs
include!(concat!(env!("IPA_VERIF_DIR"), "/kani/field_common.rs"));
field_harnesses!(Fp32BitPrime, u32, u64, 4_294_967_291, 32, z3);

/// `modulo_prime_base` (remainder operator on the operation-store type): canonical reduction of every input
#[kani::proof_for_contract(Fp32BitPrime::modulo_prime_base)]
#[kani::solver(z3)]
fn reduce_base_contract() {
    let v: u64 = kani::any();
    kani::cover!((v as u128) >= P);
    kani::cover!(v == <u64>::MAX);
    let r = Fp32BitPrime::modulo_prime_base(v);
    #[cfg(test)]
    assert!(reduce_base_post(v, &r));
    let _ = r;
}

#[cfg(test)]
include!(concat!(env!("IPA_VERIF_DIR"), "/.build/playback/fp32.rs"));
