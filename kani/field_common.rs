// engine K — shared text for the three prime fields (property C08, and the canonical-range clause of C09).
// Instantiated once per field by `field_harnesses!(<Field>, <backend_store>, <op_store>, <prime literal>, <bits>, <solver for reduce_u128>)`
// from kani/fp31.rs, kani/fp32.rs and kani/fp61.rs, each included as the child module `verif_kani` of the
// field's own module, so `.0` (the private storage) is visible. The in-place contract attributes in
// `field_impl!` / `rem_modulo_impl!` / `impl Fp61BitPrime` only *name* the predicates defined here.
//
// Abstract value  val(x) = x.0 as integer.   Representation invariant  canon(x) <=> x.0 < PRIME.

macro_rules! field_harnesses {
    ($F:ident, $store:ty, $op:ty, $prime:expr, $bits:expr, $reduce_solver:ident) => {
        use super::*;
        use crate::ff::U128Conversions;
        use crate::protocol::prss::FromRandomU128;

        pub const P: u128 = $prime;
        /// the modulus in the width the real code computes in (`$op_store`; `field_impl!` const-asserts that products fit)
        pub const PO: $op = $prime;

        pub fn mk(v: $store) -> $F {
            $F(v)
        }
        pub fn val(x: &$F) -> u128 {
            x.0 as u128
        }
        /// value in the operation-store width (no truncation: `$store` is narrower than `$op`)
        pub fn valo(x: &$F) -> $op {
            x.0 as $op
        }
        /// representation invariant
        pub fn canon(x: &$F) -> bool {
            val(x) < P
        }
        /// spec: result is the canonical representative of `input mod P` (u128 inputs)
        pub fn reduce_post(input: u128, r: &$F) -> bool {
            canon(r) && val(r) == input % P
        }
        /// same, for inputs of the operation-store type
        pub fn reduce_base_post(input: $op, r: &$F) -> bool {
            canon(r) && valo(r) == input % PO
        }
        // The specifications of + - and negation are the textbook definitions on canonical representatives
        // (division-free); multiplication is (a*b) mod P computed in the operation-store width. Arithmetic in
        // these spec functions is overflow-checked by Kani like any other code, so a spec that wrapped would fail.
        pub fn add_post(a: &$F, b: &$F, r: &$F) -> bool {
            let s = valo(a) + valo(b);
            canon(r) && valo(r) == if s >= PO { s - PO } else { s }
        }
        pub fn sub_post(a: &$F, b: &$F, r: &$F) -> bool {
            canon(r) && valo(r) == if valo(a) >= valo(b) { valo(a) - valo(b) } else { PO + valo(a) - valo(b) }
        }
        pub fn mul_post(a: &$F, b: &$F, r: &$F) -> bool {
            canon(r) && valo(r) == (valo(a) * valo(b)) % PO
        }
        /// -a is the canonical additive inverse; in particular -0 = 0
        pub fn neg_post(a: &$F, r: &$F) -> bool {
            canon(r) && valo(r) == if valo(a) == 0 { 0 } else { PO - valo(a) }
        }

        // Any storage value satisfying the invariant, built without calling a function under contract.
        impl kani::Arbitrary for $F {
            fn any() -> Self {
                let v: $store = kani::any();
                kani::assume((v as u128) < P);
                mk(v)
            }
        }

        /// the constant the contracts are stated against is the documented modulus
        #[kani::proof]
        fn constants() {
            kani::cover!(true);
            assert!(<$F as PrimeField>::PRIME as u128 == P);
            assert!(<$F as SharedValue>::BITS == $bits);
            assert!(val(&<$F as SharedValue>::ZERO) == 0);
            assert!(val(&<$F as Field>::ONE) == 1);
            assert!(P > 1 && (P - 1) >> $bits == 0);
            assert!(<$F as Default>::default() == <$F as SharedValue>::ZERO);
        }

        // In the proof_for_contract units the obligation under Kani is the in-place `ensures` clause; the explicit
        // assertion is compiled only for the native replay of a counterexample (cfg(test)), where contract
        // attributes expand to nothing. (Asserting it under Kani too would duplicate a wide `%` / multiplier, which
        // turns seconds into tens of minutes -- measured.)
        #[kani::proof_for_contract(<$F as std::ops::Add>::add)]
        fn add_contract() {
            let a: $F = kani::any();
            let b: $F = kani::any();
            kani::cover!(val(&a) + val(&b) >= P);
            kani::cover!(val(&a) + val(&b) < P);
            let r = a + b;
            #[cfg(test)]
            assert!(add_post(&a, &b, &r));
            let _ = r;
        }

        #[kani::proof_for_contract(<$F as std::ops::Sub>::sub)]
        fn sub_contract() {
            let a: $F = kani::any();
            let b: $F = kani::any();
            kani::cover!(val(&a) < val(&b));
            kani::cover!(val(&a) == val(&b));
            let r = a - b;
            #[cfg(test)]
            assert!(sub_post(&a, &b, &r));
            let _ = r;
        }

        /// `mul` hands exactly a*b to `modulo_prime_base` (used through its contract) and returns its result
        #[kani::proof_for_contract(<$F as std::ops::Mul>::mul)]
        #[kani::stub_verified($F::modulo_prime_base)]
        #[kani::solver(z3)]
        fn mul_contract() {
            let a: $F = kani::any();
            let b: $F = kani::any();
            kani::cover!(val(&a) * val(&b) >= P);
            let r = a * b;
            #[cfg(test)]
            assert!(mul_post(&a, &b, &r));
            let _ = r;
        }

        #[kani::proof_for_contract(<$F as std::ops::Neg>::neg)]
        fn neg_contract() {
            let a: $F = kani::any();
            kani::cover!(val(&a) == 0);
            kani::cover!(val(&a) == P - 1);
            let r = -a;
            #[cfg(test)]
            assert!(neg_post(&a, &r));
            let _ = r;
        }

        #[kani::proof_for_contract($F::modulo_prime_u128)]
        #[kani::solver($reduce_solver)]
        fn reduce_u128_contract() {
            let v: u128 = kani::any();
            kani::cover!(v == u128::MAX);
            kani::cover!(v == P);
            let r = $F::modulo_prime_u128(v);
            #[cfg(test)]
            assert!(reduce_post(v, &r));
            let _ = r;
        }

        /// `truncate_from` (generic in T: Into<u128>) at T = u128, u64, u32 and `from_random_u128` are
        /// `modulo_prime_u128` of the widened argument (whose contract is reduce_u128_contract)
        #[kani::proof]
        #[kani::solver(z3)]
        fn truncate_from_any() {
            let v: u128 = kani::any();
            kani::cover!(v >> 122 != 0);
            assert!(<$F as U128Conversions>::truncate_from(v) == $F::modulo_prime_u128(v));
            assert!(<$F as FromRandomU128>::from_random_u128(v) == $F::modulo_prime_u128(v));
            let w: u64 = kani::any();
            assert!(<$F as U128Conversions>::truncate_from(w) == $F::modulo_prime_u128(u128::from(w)));
            let x: u32 = kani::any();
            let r = <$F as U128Conversions>::truncate_from(x);
            assert!(r == $F::modulo_prime_u128(u128::from(x)));
            assert!(<$F as U128Conversions>::as_u128(&r) == val(&r));
        }

        /// `format!` only builds the error message of the Err arm; stubbed because CBMC's symbolic execution walks
        /// the formatting machinery even on the infeasible branch (minutes), and the message is not part of the contract.
        fn stub_format(_args: std::fmt::Arguments<'_>) -> String {
            String::new()
        }

        /// `TryFrom<u128>`: a value that fits in BITS bits is accepted and reduced to its canonical representative;
        /// a value that does not fit is rejected (never silently truncated).
        #[kani::proof]
        #[kani::stub(alloc::fmt::format, stub_format)]
        fn try_from_ok_side() {
            let v: u128 = kani::any();
            let fits = v >> $bits == 0;
            kani::cover!(fits && v >= P);
            kani::cover!(!fits);
            match <$F as TryFrom<u128>>::try_from(v) {
                Ok(r) => {
                    assert!(fits, "a value wider than BITS bits was accepted");
                    assert!(reduce_post(v, &r));
                }
                Err(_) => assert!(!fits, "try_from rejected a value that fits in BITS bits"),
            }
        }

        /// the compound-assignment operators are the binary operators (whose contracts are proved above)
        #[kani::proof]
        #[kani::solver(z3)]
        fn assign_ops() {
            let a: $F = kani::any();
            let b: $F = kani::any();
            kani::cover!(true);
            let mut x = a;
            x += b;
            assert!(x == a + b);
            let mut y = a;
            y -= b;
            assert!(y == a - b);
            let mut z = a;
            z *= b;
            assert!(z == a * b);
        }

        /// equality is equality of canonical values; conversion back to the storage type is the value
        #[kani::proof]
        fn eq_and_store() {
            let a: $F = kani::any();
            let b: $F = kani::any();
            kani::cover!(a == b);
            assert!((a == b) == (val(&a) == val(&b)));
            assert!(<$store>::from(a) as u128 == val(&a));
            assert!(bool::from(subtle::ConstantTimeEq::ct_eq(&a, &b)) == (val(&a) == val(&b)));
        }
    };
}
