// engine K — report/hybrid.rs (properties C10: report parser is total; C11: duplicate routing)
use super::*;
use crate::ff::boolean_array::{BA3, BA8};

type Enc = EncryptedHybridReport<BA8, BA3>;
type EncImp = EncryptedHybridImpressionReport<BA8>;
type EncConv = EncryptedHybridConversionReport<BA3>;

/// a `Bytes` over leaked (hence 'static) memory with the given contents: the static vtable has no reference
/// counting, which keeps the symbolic execution of clone / advance / drop cheap
fn bytes_of(data: &[u8]) -> Bytes {
    let leaked: &'static [u8] = Box::leak(data.to_vec().into_boxed_slice());
    Bytes::from_static(leaked)
}

/// C10: the event-type byte is accepted iff it is 0 or 1
#[kani::proof]
fn c10_event_type_try_from() {
    let b: u8 = kani::any();
    kani::cover!(b == 1);
    kani::cover!(b == 2);
    match HybridEventType::try_from(b) {
        Ok(HybridEventType::Impression) => assert!(b == 0),
        Ok(HybridEventType::Conversion) => assert!(b == 1),
        Err(_) => assert!(b > 1),
    }
}

/// C10: EncryptedHybridReport::from_bytes returns (never panics) on every byte string of length 0..=3
/// (symbolic contents): such records are shorter than any valid report, so the result must be Err.
#[kani::proof]
#[kani::unwind(6)]
fn c10_report_from_bytes_short() {
    let data: [u8; 3] = kani::any();
    let len: usize = kani::any();
    kani::assume(len <= 3);
    kani::cover!(len == 0);
    kani::cover!(len == 3 && data[0] == 1);
    let b = bytes_of(&data[..len]);
    let r = Enc::from_bytes(b);
    assert!(r.is_err());
}

/// C10: at the decision boundary of the impression variant: a record of exactly 1 + INFO_OFFSET - 1 bytes is
/// rejected, one of 1 + INFO_OFFSET bytes is accepted as the variant named by byte 0 (contents symbolic).
#[kani::proof]
#[kani::unwind(4)]
fn c10_report_from_bytes_boundary_imp() {
    const N: usize = EncImp::INFO_OFFSET + 1;
    let mut data = [0u8; N];
    data[0] = 0;
    data[1] = kani::any();
    data[N - 1] = kani::any();
    kani::cover!(true);
    let short = Enc::from_bytes(bytes_of(&data[..N - 1]));
    assert!(matches!(short, Err(InvalidHybridReportError::Length(l, m)) if l == N - 2 && m == N - 1));
    let exact = Enc::from_bytes(bytes_of(&data[..]));
    assert!(matches!(exact, Ok(EncryptedHybridReport::Impression(_))));
}

#[kani::proof]
#[kani::unwind(4)]
fn c10_report_from_bytes_boundary_conv() {
    const N: usize = EncConv::INFO_OFFSET + 1;
    let mut data = [0u8; N];
    data[0] = 1;
    data[1] = kani::any();
    data[N - 1] = kani::any();
    kani::cover!(true);
    let short = Enc::from_bytes(bytes_of(&data[..N - 1]));
    assert!(matches!(short, Err(InvalidHybridReportError::Length(l, m)) if l == N - 2 && m == N - 1));
    let exact = Enc::from_bytes(bytes_of(&data[..]));
    assert!(matches!(exact, Ok(EncryptedHybridReport::Conversion(_))));
}

/// C11: for every 128-bit tag and every shard count 1..=8 the chosen shard exists (< n); no panic.
/// Which function of the tag is used is deliberately not pinned down: any deterministic map into 0..n
/// routes the copies of a report to the same shard.
#[kani::proof]
#[kani::unwind(10)]
fn c11_shard_picker_valid() {
    let bytes: [u8; 16] = kani::any();
    let t = UniqueTag { bytes };
    kani::cover!(bytes[15] == 0xff);
    for n in 1u32..=8 {
        let s = t.shard_picker(ShardIndex::from(n));
        assert!(u32::from(s) < n);
    }
}

/// C11: two tags with equal bytes (the two copies of a report) are sent to the same shard: the choice has no
/// hidden state or randomness. Shard counts 2, 3, 4, 8 (each count needs two instances of a 128-bit division in one
/// formula, which SAT solves slowly for non powers of two; z3's SMT back end aborts on this harness).
#[kani::proof]
#[kani::unwind(10)]
fn c11_shard_picker_deterministic() {
    let bytes: [u8; 16] = kani::any();
    let t = UniqueTag { bytes };
    let t2 = UniqueTag { bytes };
    kani::cover!(bytes[0] != 0);
    for n in [2u32, 3, 4, 8] {
        assert!(t.shard_picker(ShardIndex::from(n)) == t2.shard_picker(ShardIndex::from(n)));
    }
}

/// C11: the tag of a tag is itself (from_unique_bytes is a byte copy)
#[kani::proof]
#[kani::unwind(18)]
fn c11_unique_tag_copy() {
    let bytes: [u8; 16] = kani::any();
    let t = UniqueTag { bytes };
    kani::cover!(true);
    let u = UniqueTag::from_unique_bytes(&t);
    assert!(u.bytes == bytes && t.unique_bytes() == bytes);
}

#[cfg(test)]
include!(concat!(env!("IPA_VERIF_DIR"), "/.build/playback/report_hybrid.rs"));
