// engine K harnesses for module hook 'report_hybrid' (included under cfg(kani) by /repo)

#[cfg(test)]
include!(concat!(env!("IPA_VERIF_DIR"), "/.build/playback/report_hybrid.rs"));
