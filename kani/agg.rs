// engine K — protocol/hybrid/agg.rs (property C01: only match keys with exactly two reports form a pair)
use super::*;
use crate::{
    ff::{
        U128Conversions,
        boolean_array::{BA3, BA8},
    },
    secret_sharing::{SharedValue, replicated::ReplicatedSecretSharing},
};

fn rep(tag: u8) -> AggregateableHybridReport<BA8, BA3> {
    AggregateableHybridReport {
        match_key: (),
        value: Replicated::new(BA3::ZERO, BA3::ZERO),
        breakdown_key: Replicated::new(BA8::truncate_from(u128::from(tag)), BA8::ZERO),
    }
}
fn tag(r: &AggregateableHybridReport<BA8, BA3>) -> u128 {
    r.breakdown_key.left().as_u128()
}

/// MatchEntry state machine: after k >= 1 reports, into_pair() is Some([first, second]) iff k == 2
/// (k = 3, 4 cover Pair -> MoreThanTwo and MoreThanTwo -> MoreThanTwo; the transition function has no other state).
#[kani::proof]
#[kani::unwind(10)]
fn c01_match_entry() {
    let k: u8 = kani::any();
    kani::assume(k >= 1 && k <= 4);
    kani::cover!(k == 2);
    kani::cover!(k == 4);
    let mut e = MatchEntry::Single(rep(1));
    if k >= 2 {
        e.add_report(rep(2));
    }
    if k >= 3 {
        e.add_report(rep(3));
    }
    if k >= 4 {
        e.add_report(rep(4));
    }
    match e.into_pair() {
        Some([a, b]) => {
            assert!(k == 2);
            assert!(tag(&a) == 1 && tag(&b) == 2);
        }
        None => assert!(k != 2),
    }
}

// Units that drive `group_report_pairs_ordered` itself (<= 3 reports over 2 keys with symbolic keys; k = 2, 3, 5, 6 reports
// of one key, concrete -- the latter written after seeded change C01-1) do not close: the real BTreeMap gives no verdict
// in 15-30 min even for 2 reports. Only the MatchEntry state machine is under contract.

#[cfg(test)]
include!(concat!(env!("IPA_VERIF_DIR"), "/.build/playback/agg.rs"));
