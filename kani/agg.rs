// engine K — protocol/hybrid/agg.rs (property C01: only match keys with exactly two reports form a pair)
use super::*;
use crate::{
    ff::{
        U128Conversions,
        boolean_array::{BA3, BA8},
    },
    secret_sharing::{SharedValue, replicated::ReplicatedSecretSharing},
};

fn rep(tag: u8) -> AggregateableHybridReport<BA8, BA3> {
    AggregateableHybridReport {
        match_key: (),
        value: Replicated::new(BA3::ZERO, BA3::ZERO),
        breakdown_key: Replicated::new(BA8::truncate_from(u128::from(tag)), BA8::ZERO),
    }
}
fn tag(r: &AggregateableHybridReport<BA8, BA3>) -> u128 {
    r.breakdown_key.left().as_u128()
}

/// MatchEntry state machine: after k >= 1 reports, into_pair() is Some([first, second]) iff k == 2
/// (k = 3, 4 cover Pair -> MoreThanTwo and MoreThanTwo -> MoreThanTwo; the transition function has no other state).
#[kani::proof]
#[kani::unwind(10)]
fn c01_match_entry() {
    let k: u8 = kani::any();
    kani::assume(k >= 1 && k <= 4);
    kani::cover!(k == 2);
    kani::cover!(k == 4);
    let mut e = MatchEntry::Single(rep(1));
    if k >= 2 {
        e.add_report(rep(2));
    }
    if k >= 3 {
        e.add_report(rep(3));
    }
    if k >= 4 {
        e.add_report(rep(4));
    }
    match e.into_pair() {
        Some([a, b]) => {
            assert!(k == 2);
            assert!(tag(&a) == 1 && tag(&b) == 2);
        }
        None => assert!(k != 2),
    }
}

fn prf(mk: u64, t: u8) -> PrfHybridReport<BA8, BA3> {
    PrfHybridReport {
        match_key: mk,
        value: Replicated::new(BA3::ZERO, BA3::ZERO),
        breakdown_key: Replicated::new(BA8::truncate_from(u128::from(t)), BA8::ZERO),
    }
}

/// BOUNDED (<= 3 reports, match keys in {0,1}): the grouping over the real BTreeMap returns one pair per key
/// that occurs exactly twice, keys ascending, each pair in arrival order.
#[kani::proof]
#[kani::unwind(10)]
#[kani::solver(kissat)]
fn c01_group_pairs_small() {
    let n: usize = kani::any();
    kani::assume(n <= 3);
    let keys: [u64; 3] = kani::any();
    kani::assume(keys[0] < 2 && keys[1] < 2 && keys[2] < 2);
    let mut v = Vec::with_capacity(3);
    let mut count = [0usize; 2];
    let mut first = [0u8; 2];
    let mut second = [0u8; 2];
    for i in 0..3 {
        if i < n {
            let k = keys[i] as usize;
            if count[k] == 0 {
                first[k] = i as u8 + 1;
            } else if count[k] == 1 {
                second[k] = i as u8 + 1;
            }
            count[k] += 1;
            v.push(prf(keys[i], i as u8 + 1));
        }
    }
    kani::cover!(n == 3 && count[0] == 2);
    kani::cover!(n == 2 && count[1] == 2);
    let out = group_report_pairs_ordered(v);
    let expect = usize::from(count[0] == 2) + usize::from(count[1] == 2);
    assert!(out.len() == expect);
    if expect == 1 {
        let k = if count[0] == 2 { 0 } else { 1 };
        assert!(tag(&out[0][0]) == u128::from(first[k]) && tag(&out[0][1]) == u128::from(second[k]));
    }
}

// Units that feed k reports with one match key through `group_report_pairs_ordered` (k = 2, 3, 5, 6, concrete) were
// written after seeded change C01-1 and do not close: the real BTreeMap does not finish in 15 min even for k = 2.

#[cfg(test)]
include!(concat!(env!("IPA_VERIF_DIR"), "/.build/playback/agg.rs"));
