// engine K — protocol/context/batcher.rs: PROBE ONLY (property C16 is not_applicable): documents that the synchronous
// core of `Batcher` cannot be compiled by kani-compiler. Not registered as a unit.
use super::*;

#[kani::proof]
#[kani::unwind(5)]
fn zz_probe_batcher_get_batch() {
    let mut b = Batcher::<usize>::new(2, TotalRecords::Indeterminate, Box::new(|i| i));
    let Ok(g) = b.get_mut() else { return };
    let s = g.get_batch(RecordId::from(3u32));
    assert!(s.batch == 1);
}

fn stub_current() -> tracing::level_filters::LevelFilter {
    tracing::level_filters::LevelFilter::OFF
}
fn stub_interest(_c: &tracing::callsite::DefaultCallsite) -> tracing::subscriber::Interest {
    tracing::subscriber::Interest::never()
}
fn stub_enabled(_m: &'static tracing::Metadata<'static>, _i: tracing::subscriber::Interest) -> bool {
    false
}
fn stub_dispatch<'a>(_m: &'static tracing::Metadata<'static>, _f: &'a tracing::field::ValueSet<'_>)
where
    'a: 'a,
{
}

#[kani::proof]
#[kani::unwind(5)]
#[kani::stub(tracing::level_filters::LevelFilter::current, stub_current)]
#[kani::stub(tracing::callsite::DefaultCallsite::interest, stub_interest)]
#[kani::stub(tracing::__macro_support::__is_enabled, stub_enabled)]
#[kani::stub(tracing::Event::dispatch, stub_dispatch)]
fn zz_probe_batcher_ready() {
    let Some(n) = std::num::NonZeroUsize::new(4) else { return };
    let mut b = Batcher::<usize>::new(2, TotalRecords::Specified(n), Box::new(|i| i));
    let Ok(g) = b.get_mut() else { return };
    let r = g.is_ready_for_validation(RecordId::from(2u32));
    assert!(matches!(r, Ok(Ready::No(_))));
    assert!(g.first_batch == 0 && g.batches.len() == 2);
}

#[cfg(test)]
include!(concat!(env!("IPA_VERIF_DIR"), "/.build/playback/batcher.rs"));
