// engine K harnesses for module hook 'fp31' (included under cfg(kani) by /repo)

#[cfg(test)]
include!(concat!(env!("IPA_VERIF_DIR"), "/.build/playback/fp31.rs"));
