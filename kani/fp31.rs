// engine K — ff/prime_field.rs, `mod fp31*`: Fp31 (property C08). Shared text: kani/field_common.rs
include!(concat!(env!("IPA_VERIF_DIR"), "/kani/field_common.rs"));
field_harnesses!(Fp31, u8, u16, 31, 8, z3);

/// `modulo_prime_base` (remainder operator on the operation-store type): canonical reduction of every input
#[kani::proof_for_contract(Fp31::modulo_prime_base)]
#[kani::solver(z3)]
fn reduce_base_contract() {
    let v: u16 = kani::any();
    kani::cover!((v as u128) >= P);
    kani::cover!(v == <u16>::MAX);
    let r = Fp31::modulo_prime_base(v);
    #[cfg(test)]
    assert!(reduce_base_post(v, &r));
    let _ = r;
}

#[cfg(test)]
include!(concat!(env!("IPA_VERIF_DIR"), "/.build/playback/fp31.rs"));
