"""Weave spec: `PrimeField::invert` (ff/prime_field.rs), one instance per prime field (unit['instance']).

kept verbatim   every statement of the loop and the initialisations
substituted     &self/*self -> integer parameter `a` (the element's canonical value, contract canon(self) of engine K);
                Self::PRIME.into() -> the literal read from the `field_impl!` invocation of the instance;
                mem::swap -> std::mem::swap; Self::try_from(E).unwrap() -> verif_try_from_unwrap(E), a Verus function
                whose contract (requires E < P, ensures result == E) is what engine K proves for try_from /
                truncate_from on values below P (units c08_<f>_try_from_ok_side, c08_<f>_reduce_u128_contract)
dropped         assert_ne!(*self, Self::ZERO)  (becomes `requires a != 0`)
woven in        requires/ensures, ghost Bezout witnesses, loop invariant + decreases, proof blocks
"""
import os
import re

from verus_engine import WeaveError, WeaveResult, Weaver, find_item

SRC = "ipa-core/src/ff/prime_field.rs"


def prime_of(text, field):
    m = re.search(r"field_impl!\s*\{\s*%s\s*,\s*\w+\s*,\s*\w+\s*,\s*(\d+)\s*,\s*([\d_]+)\s*\}" % re.escape(field), text)
    if not m:
        raise WeaveError("field_impl! invocation for %s not found" % field)
    return int(m.group(2).replace("_", "")), int(m.group(1))


def build(repo, unit):
    path = os.path.join(repo, SRC)
    text = open(path).read()
    field = unit["instance"]
    P, bits = prime_of(text, field)
    ts, to, tc = find_item(text, r"pub trait PrimeField\b[^{]*\{")
    hs, bo, bc = find_item(text, r"fn invert\(&self\) -> Self \{", to, tc)
    body = text[bo + 1:bc]
    w = Weaver(body)
    lit = "%du128" % P
    w.drop_line(r"^\s*assert_ne!\(\*self, Self::ZERO\);\s*$", "precondition: becomes `requires a != 0`")
    w.substitute("Self::PRIME.into()", lit, 2, "PRIME of %s read from its field_impl! invocation" % field)
    w.substitute("self.as_u128()", "a", 1, "the element's canonical value is the integer parameter a")
    w.substitute("mem::swap(", "std::mem::swap(", 2, "path only")
    w.substitute("Self::try_from(", "verif_try_from_unwrap(", 1, "try_from on a value < P succeeds and is the identity (engine K contract)")
    w.substitute(".unwrap()", "", 1, "see verif_try_from_unwrap")
    # ---- woven proof text (structural anchors only)
    w.insert_before("while newr != 0 {", """let ghost mut kt: int = -1;   // true_t * a == r + kt*P   (0*a == P - P)
        let ghost mut kn: int = 0;    // true_newt * a == newr + kn*P
        """, "ghost Bezout witnesses")
    w.loop_head("while newr != 0 {", """            invariant
                sign == 0 || sign == 1,
                0 < a < P,
                newr < r,
                r <= P,
                (r == P && newr == a && sign == 1 && t == 0 && newt == 1) || r <= a,
                (newt as int) * (r as int) + (t as int) * (newr as int) == P,
                t <= P, newt <= P,
                (if sign == 1 { -(t as int) } else { t as int }) * (a as int) == (r as int) + kt * P,
                (if sign == 1 { newt as int } else { -(newt as int) }) * (a as int) == (newr as int) + kn * P,
            decreases newr,""", "loop invariant + decreases")
    w.loop_body_start("while newr != 0", """
            let ghost (ot, ont, or, onr) = (t as int, newt as int, r as int, newr as int);
            proof {
                lemma_fundamental_div_mod(or, onr);
                assert(or == onr * (or / onr) + or % onr);
                lemma_mod_bound(or, onr);
                assert(ont * or <= P) by(nonlinear_arith) requires ont * or + ot * onr == P, ot >= 0, onr >= 0;
                assert((or / onr) * onr <= or) by(nonlinear_arith) requires or == onr * (or / onr) + or % onr, or % onr >= 0;
                assert((or / onr) * ont <= P) by(nonlinear_arith)
                    requires ont * or <= P, (or / onr) * onr <= or, onr >= 1, ont >= 0, or / onr >= 0;
                assert(ot + (or / onr) * ont <= P) by(nonlinear_arith)
                    requires ont * or + ot * onr == P, or == onr * (or / onr) + or % onr, or % onr >= 0, onr >= 1, ot >= 0, ont >= 0, or/onr >= 0;
            }
""", "snapshot of the loop variables + no-overflow proof for `newt += quotient * t`")
    w.loop_body_end("while newr != 0", """
            proof {
                let q = or / onr;
                assert(t == ont && r == onr && newt == ot + q * ont && newr == or - q * onr);
                assert((newt as int) * (r as int) + (t as int) * (newr as int) == P) by(nonlinear_arith)
                    requires newt == ot + q * ont, r == onr, t == ont, newr == or - q * onr, ont * or + ot * onr == P;
                let (okt, okn) = (kt, kn);
                kt = okn;
                kn = okt - q * okn;
                if sign == 0 {
                    assert(-(newt as int) * (a as int) == (newr as int) + kn * P) by(nonlinear_arith)
                        requires newt == ot + q * ont, newr == or - q * onr, -ot * (a as int) == or + okt * P, ont * (a as int) == onr + okn * P, kn == okt - q * okn;
                } else {
                    assert((newt as int) * (a as int) == (newr as int) + kn * P) by(nonlinear_arith)
                        requires newt == ot + q * ont, newr == or - q * onr, ot * (a as int) == or + okt * P, -ont * (a as int) == onr + okn * P, kn == okt - q * okn;
                }
            }
        """, "re-establish the invariant (determinant identity and Bezout witnesses)")
    w.after_loop("while newr != 0", """
        proof {
            // newr == 0 -> newt * r == P, so r | P; r <= a < P and P prime => r == 1
            assert(P == (newt as int) * (r as int)) by(nonlinear_arith) requires (newt as int) * (r as int) + (t as int) * (newr as int) == P, newr == 0;
            lemma_mod_multiples_basic(newt as int, r as int);
            assert(divides(r as int, P));
            assert(r == 1);
            assert(sign == 0 || sign == 1);
            if sign == 1 {
                assert((1 - sign) * t == 0 && sign * (%(lit)s - t) == P - t) by(nonlinear_arith) requires sign == 1, t <= P;
            } else {
                assert((1 - sign) * t == t && sign * (%(lit)s - t) == 0) by(nonlinear_arith) requires sign == 0, t <= P;
            }
            let x: int = if sign == 1 { P - t } else { t as int };
            let kk: int = if sign == 1 { kt + a } else { kt };
            if sign == 1 {
                assert(x * (a as int) == 1 + (kt + a) * P) by(nonlinear_arith)
                    requires x == P - t, -(t as int) * (a as int) == 1 + kt * P;
            } else {
                assert(x * (a as int) == 1 + kt * P);
            }
            assert(x * (a as int) == 1 + kk * P);
            lemma_mod_multiples_vanish(kk, 1, P);
            assert(P * kk + 1 == 1 + kk * P) by(nonlinear_arith);
            lemma_small_mod(1, P as nat);
            assert((x * (a as int)) %% P == 1);
            if x == P {
                assert(false) by(nonlinear_arith) requires P * (a as int) == 1 + kk * P, P > 1;
            }
            assert(0 <= x < P);
        }
""" % {"lit": lit}, "gcd = 1 from primality; value and range of the result")
    body2 = w.text
    out = """// WOVEN by /verif/verus/invert.py from %(src)s (PrimeField::invert), instance %(field)s -- do not edit
use vstd::prelude::*;
use vstd::arithmetic::div_mod::*;
use vstd::arithmetic::mul::*;
verus! {

pub spec const P: int = %(P)d;

pub open spec fn divides(d: int, n: int) -> bool { d != 0 && n %% d == 0 }

// the single assumed mathematical fact: P is prime (31, 2^32-5, 2^61-1; cross-checked by the runner with sympy)
pub open spec fn prime(p: int) -> bool { p > 1 && forall|d: int| 1 < d < p ==> !#[trigger] divides(d, p) }

// `Self::try_from(x).unwrap()` on x < P: bits(x) <= BITS so try_from takes the Ok arm, and truncate_from(x) = x mod P = x.
// Both facts are contracts discharged on the real functions by engine K.
#[verifier::external_body]
fn verif_try_from_unwrap(x: u128) -> (r: u128)
    requires x < P,
    ensures r == x,
{ unimplemented!() }

fn invert(a: u128) -> (res: u128)
    requires 0 < a < P, prime(P),
    ensures res < P, ((res as int) * (a as int)) %% P == 1,
{%(body)s}

}
fn main() {}
""" % {"src": SRC, "field": field, "P": P, "body": body2}
    rep = w.report()
    rep["source"] = "%s: trait PrimeField, fn invert" % SRC
    rep["instance"] = {"field": field, "PRIME": P, "BITS": bits}
    return WeaveResult(out, rep, [path])
