"""Weave spec (engine KW = woven text checked by standalone Kani): the multiplication core of the binary fields
(ff/galois_field.rs): the portable carry-less multiply `clmul` and the reduction loop of `bit_array_impl!`'s `Mul`.

kept verbatim   clmul: `let a = u128::from(a); let mut product = 0; for i in 0..BITS { let bit = u128::from((b >> i) & 1);
                product ^= bit * (a << i); } product`; Mul: the `for i in (0..(BITS - 1)).into_iter().rev()` loop with
                `let b = product >> (BITS + i); product ^= (POLYNOMIAL * b) << i;`
substituted     GF::BITS / Self::BITS -> const generic BITS; <Self as GaloisField>::POLYNOMIAL -> const generic POLY (both read from
                the instance's `bit_array_impl!` invocation); `clmul(self, rhs)` -> `clmul_core::<BITS>(x, y)`
dropped+TRUSTED `to_u64(x) = x.as_u128() as u64` (bitvec load of the operands) and `Self::try_from(product).unwrap()` (bitvec store):
                the woven function takes and returns the integers. That try_from cannot fail is the obligation `result >> BITS == 0`.
not woven       the x86-64 pclmulqdq / aarch64 vmull_p64 paths (cfg-selected intrinsics; the portable path is what this build uses)
"""
import os
import re

from verus_engine import WeaveError, WeaveResult, Weaver, find_item

SRC = "ipa-core/src/ff/galois_field.rs"


def instances(text):
    polys = re.findall(r"bit_array_impl!\(\s*\w+,\s*(\w+),\s*\w+,\s*(\d+),\s*bitarr!\([^)]*\),\s*(?://[^\n]*\n\s*)*(0b[01_]+)_u128,", text)
    if len(polys) != 7:
        raise WeaveError("expected 7 bit_array_impl! invocations, found %d" % len(polys))
    return {n: (int(b), int(l.replace("_", ""), 2)) for n, b, l in polys}


def build(repo, unit):
    path = os.path.join(repo, SRC)
    text = open(path).read()
    inst = instances(text)
    # ---- clmul: the portable tail of `fn clmul<GF: GaloisField>(a: GF, b: GF) -> u128`
    hs, bo, bc = find_item(text, r"\nfn clmul<GF: GaloisField>\(a: GF, b: GF\) -> u128 \{")
    body = text[bo + 1:bc]
    i = body.find("    let a = u128::from(a);")
    if i < 0:
        raise WeaveError("portable clmul tail not found")
    w1 = Weaver(body[i:])
    w1.substitute("GF::BITS", "BITS", 1, "const generic of the woven function")
    # ---- Mul reduction loop inside bit_array_impl!
    ms, mo, mc = find_item(text, r"macro_rules! bit_array_impl \{")
    fs, fo, fc = find_item(text, r"impl std::ops::Mul for \$name \{\s*type Output = Self;\s*fn mul\(self, rhs: Self\) -> Self::Output \{", mo, mc)
    # find_item returns the braces of the impl block; locate fn mul's own block
    ms2 = text.index("fn mul(self, rhs: Self) -> Self::Output {", fs)
    fbo = text.index("{", ms2)
    from verus_engine import match_brace
    fbc = match_brace(text, fbo)
    w2 = Weaver(text[fbo + 1:fbc])
    w2.substitute("let mut product = clmul(self, rhs);", "let mut product = clmul_core::<BITS>(x, y);", 1, "operands are the integers; clmul is the woven portable path")
    w2.substitute("Self::BITS", "BITS", 2, "const generic")
    w2.substitute("<Self as GaloisField>::POLYNOMIAL", "POLY", 1, "const generic read from the instance's bit_array_impl! invocation")
    w2.substitute("Self::try_from(product).unwrap()", "product", 1, "TRUSTED bitvec store dropped; `product >> BITS == 0` is an obligation of the harnesses")
    small = [(n, b, p) for n, (b, p) in sorted(inst.items(), key=lambda kv: kv[1][0]) if b <= 9]
    big = [(n, b, p) for n, (b, p) in sorted(inst.items(), key=lambda kv: kv[1][0]) if b > 9]
    harn = []
    for n, b, p in small + big:
        T = n.lower()
        mask = (1 << b) - 1
        harn.append("""
// ---- %(n)s: BITS = %(b)d, POLYNOMIAL = %(p)#x
fn any_%(T)s() -> u64 { let v: u64 = kani::any(); kani::assume(v <= %(mask)#x); v }
fn mul_%(T)s(x: u64, y: u64) -> u64 { let r = mul_core::<%(b)d, %(p)#x>(x, y); assert!(r >> %(b)d == 0, "reduced product must fit in BITS bits (try_from cannot fail)"); r as u64 }

/// the reduced product fits in BITS bits (so `try_from(product).unwrap()` cannot fail); 1 is the identity; 0 annihilates
#[kani::proof]
#[kani::unwind(%(u)d)]
fn gf_%(T)s_fits_identity() {
    let (x, y) = (any_%(T)s(), any_%(T)s());
    kani::cover!(x >= %(lo)d && y >= %(lo)d);
    let _ = mul_%(T)s(x, y);
    assert!(mul_%(T)s(x, 1) == x && mul_%(T)s(1, x) == x && mul_%(T)s(x, 0) == 0 && mul_%(T)s(0, x) == 0);
}

/// multiplication distributes over addition (xor)
#[kani::proof]
#[kani::unwind(%(u)d)]
fn gf_%(T)s_distrib() {
    let (x, y, z) = (any_%(T)s(), any_%(T)s(), any_%(T)s());
    kani::cover!(x >= %(lo)d && y >= %(lo)d && z >= %(lo)d);
    assert!(mul_%(T)s(x, y ^ z) == mul_%(T)s(x, y) ^ mul_%(T)s(x, z));
}

/// multiplication commutes
#[kani::proof]
#[kani::unwind(%(u)d)]
fn gf_%(T)s_commut() {
    let (x, y) = (any_%(T)s(), any_%(T)s());
    kani::cover!(x >= %(lo)d && y >= %(lo)d);
    assert!(mul_%(T)s(x, y) == mul_%(T)s(y, x));
}
""" % dict(n=n, T=T, b=b, p=p, mask=mask, u=b + 2, lo=(1 if b == 1 else 2)))
        if b <= 9:
            sq = "\n".join("    let p%d = mul_%s(p%d, p%d);" % (k + 1, T, k, k) for k in range(b))
            # x^(2^b - 2) = product of x^(2^k), k = 1..b-1
            prod = "p1"
            chain = []
            for k in range(2, b):
                chain.append("    let q%d = mul_%s(%s, p%d);" % (k, T, prod, k))
                prod = "q%d" % k
            harn.append("""
/// multiplication is associative (all triples)
#[kani::proof]
#[kani::unwind(%(u)d)]
fn gf_%(T)s_assoc() {
    let (x, y, z) = (any_%(T)s(), any_%(T)s(), any_%(T)s());
    kani::cover!(x >= %(lo)d && y >= %(lo)d && z >= %(lo)d);
    assert!(mul_%(T)s(mul_%(T)s(x, y), z) == mul_%(T)s(x, mul_%(T)s(y, z)));
}

/// every non-zero element has a multiplicative inverse, namely x^(2^BITS - 2) (so there are no zero divisors)
#[kani::proof]
#[kani::unwind(%(u)d)]
fn gf_%(T)s_inverse() {
    let x = any_%(T)s();
    kani::assume(x != 0);
    kani::cover!(x >= %(lo)d);
    let p0 = x;
%(sq)s
%(chain)s
    let inv = %(prod)s;
    assert!(mul_%(T)s(x, inv) == 1);
}
""" % dict(T=T, u=b + 2, sq=sq, chain="\n".join(chain), prod=prod if b > 1 else "p0", lo=(1 if b == 1 else 2)))
    out = """// WOVEN by /verif/verus/gf_mul.py from %(src)s (portable clmul + bit_array_impl! Mul reduction loop) -- do not edit
// checked with standalone Kani (engine KW)

fn clmul_core<const BITS: u32>(a: u64, b: u64) -> u128 {
%(clmul)s}

fn mul_core<const BITS: u32, const POLY: u128>(x: u64, y: u64) -> u128 {%(mul)s}
%(harn)s
""" % dict(src=SRC, clmul=w1.text, mul=w2.text, harn="\n".join(harn))
    r1, r2 = w1.report(), w2.report()
    rep = {"kept_verbatim": ["clmul: " + l for l in r1["kept_verbatim"]] + ["mul: " + l for l in r2["kept_verbatim"]],
           "not_verbatim": ["clmul: " + l for l in r1["not_verbatim"]] + ["mul: " + l for l in r2["not_verbatim"]],
           "substituted": r1["substituted"] + r2["substituted"], "dropped": r1["dropped"] + r2["dropped"] + [
               {"line": "let (a, b) = (to_u64(a), to_u64(b));", "why": "TRUSTED bitvec load of the operands (as_u128): operands are integer parameters"},
               {"line": "#[cfg(..pclmulqdq / aarch64..)] intrinsic paths", "why": "not compiled in this build; only the portable path is woven"}],
           "woven_in": [{"anchor": "file end", "what": "per-instance harnesses (ring axioms; associativity and inverses for BITS <= 9)"}],
           "source": SRC + ": fn clmul (portable tail), bit_array_impl!: impl Mul", "instances": {n: {"BITS": b, "POLYNOMIAL": hex(p)} for n, (b, p) in inst.items()}}
    return WeaveResult(out, rep, [path])
