"""Weave spec: the accept/reject decision of prime-field `Serializable::deserialize` (field_impl! in ff/prime_field.rs).

kept verbatim   `if v < PRIME { Ok(Self(v)) } else { Err(GreaterThanPrimeError(v, PRIME)) }` (structure and comparison)
substituted     Self::PRIME / Self::PRIME.into() -> the literal of the instance's field_impl! invocation;
                Self(v) / GreaterThanPrimeError -> local mirror tuple structs; $backend_store -> the instance's type
dropped+TRUSTED `let v = <$backend_store>::from_le_bytes((*buf).into());`  (std + generic-array conversion: this is the
                construct that aborts CBMC and is outside Verus; `v` becomes the parameter)
woven in        ensures: Ok(x) <=> v < PRIME and val(x) = v  -- i.e. exactly the canonical encodings are accepted
"""
import os
import re

from verus_engine import WeaveError, WeaveResult, Weaver, find_item

SRC = "ipa-core/src/ff/prime_field.rs"


def build(repo, unit):
    path = os.path.join(repo, SRC)
    text = open(path).read()
    field = unit["instance"]
    m = re.search(r"field_impl!\s*\{\s*%s\s*,\s*(\w+)\s*,\s*\w+\s*,\s*(\d+)\s*,\s*([\d_]+)\s*\}" % re.escape(field), text)
    if not m:
        raise WeaveError("field_impl! invocation for %s not found" % field)
    store, P = m.group(1), int(m.group(3).replace("_", ""))
    ms, mo, mc = find_item(text, r"macro_rules! field_impl \{")
    hs, bo, bc = find_item(text, r"fn deserialize\(\s*buf: &GenericArray<u8, Self::Size>,\s*\) -> Result<Self, Self::DeserializationError> \{", mo, mc)
    w = Weaver(text[bo + 1:bc])
    w.drop_line(r"^\s*let v = <\$backend_store>::from_le_bytes\(\(\*buf\)\.into\(\)\);\s*$",
                "TRUSTED byte conversion (std + generic-array); v becomes the function parameter")
    w.substitute("Self::PRIME.into()", "%du128" % P, 1, "PRIME literal of %s" % field)
    w.substitute("Self::PRIME", "%d%s" % (P, store), 1, "PRIME literal of %s" % field)
    w.substitute("Ok(Self(v))", "Ok(Elem(v))", 1, "mirror of the field's tuple struct")
    out = """// WOVEN by /verif/verus/field_decode.py from %(src)s (field_impl!: Serializable::deserialize), instance %(field)s
use vstd::prelude::*;
verus! {

pub struct Elem(pub %(store)s);
pub struct GreaterThanPrimeError(pub %(store)s, pub u128);
pub spec const P: int = %(P)d;

fn deserialize_decision(v: %(store)s) -> (r: Result<Elem, GreaterThanPrimeError>)
    ensures
        r is Ok <==> (v as int) < P,
        r is Ok ==> r->Ok_0.0 == v,
        r is Err ==> r->Err_0.0 == v && r->Err_0.1 == P,
{%(body)s}

}
fn main() {}
""" % {"src": SRC, "field": field, "store": store, "P": P, "body": w.text}
    rep = w.report()
    rep["source"] = SRC + ": field_impl!, fn deserialize"
    rep["instance"] = {"field": field, "PRIME": P, "store": store}
    rep["trusted"] = ["<$backend_store>::from_le_bytes((*buf).into()) yields the little-endian integer of the buffer"]
    return WeaveResult(out, rep, [path])
