"""Weave spec: `SendChannelConfig::new_with` (helpers/gateway/send.rs) -- capacity / read-size alignment rule.

kept verbatim   `let total_capacity = ..`, the `read_size_multiplier` block, the `if indeterminate {..} else {min(..)}`
                expression, `this`, the order of all statements
substituted     (declared below, every entry must match exactly the stated number of times)
                  gateway_config.active.get()      -> active        (usize parameter, precondition is_pow2(active):
                                                                     the invariant of NonZeroU32PowerOfTwo, engine K unit
                                                                     c13_nonzero_pow2_try_from)
                  gateway_config.read_size.get()   -> read_size_cfg (usize parameter > 0: NonZeroUsize)
                  total_records.is_indeterminate() -> indeterminate (bool parameter)
                  std::cmp::min                    -> local min with the obvious contract
                  X.try_into().unwrap() (usize -> NonZeroUsize) -> nz(X): requires X > 0, returns X
                  Self { .. } struct literal       -> tuple (total_capacity, record_size, read_size); .get() -> .N
                  assert!/assert_eq!               -> Verus assert (proved, i.e. the run-time assert cannot fire)
woven in        is_pow2, lemma_pow2_divides, requires/ensures, three proof blocks
assumed link    non_zero_prev_power_of_two is used through its contract (external_body); the contract is discharged
                on the real function by engine K (unit c13_prev_power_of_two)
"""
import os

from verus_engine import WeaveError, WeaveResult, Weaver, find_item

SRC = "ipa-core/src/helpers/gateway/send.rs"


def build(repo, unit):
    path = os.path.join(repo, SRC)
    text = open(path).read()
    is_, io, ic = find_item(text, r"\nimpl SendChannelConfig \{")
    hs, bo, bc = find_item(text, r"fn new_with\(\s*gateway_config: GatewayConfig,\s*total_records: TotalRecords,\s*record_size: usize,\s*\) -> Self \{", io, ic)
    w = Weaver(text[bo + 1:bc])
    w.substitute('assert!(record_size > 0, "Message size cannot be 0");', "assert(record_size > 0);", 1,
                 "run-time assert -> proof obligation (holds by the precondition record_size > 0: M::Size::USIZE of a message type)")
    w.substitute("gateway_config.active.get()", "active", 2, "NonZeroU32PowerOfTwo value as integer parameter, is_pow2(active) as precondition")
    w.substitute("gateway_config.read_size.get()", "read_size_cfg", 1, "NonZeroUsize value as integer parameter, > 0 as precondition")
    w.substitute("total_records.is_indeterminate()", "indeterminate", 1, "bool parameter")
    w.substitute("std::cmp::min(", "min(", 1, "local min with contract r == if a <= b {a} else {b}")
    w.substitute("let this = Self {", "let this = (", 1, "struct literal -> tuple (total_capacity, record_size, read_size)")
    w.substitute("total_capacity: total_capacity.try_into().unwrap(),", "nz(total_capacity),", 1, "NonZeroUsize::try_from(x).unwrap() -> nz(x): requires x > 0")
    w.substitute("record_size: record_size.try_into().unwrap(),", "nz(record_size),", 1, "same")
    w.substitute("read_size: if indeterminate {", "nz(if indeterminate {", 1, "same")
    w.substitute_re(r"\}\s*\.try_into\(\)\s*\.unwrap\(\),\s*total_records,\s*\};", "}),\n        );", 1,
                    "close of the nz(..) call and of the tuple; the total_records field is carried through unchanged")
    w.substitute("assert!(this.total_capacity.get() >= record_size * active);", "assert(this.0 >= record_size * active);", 1,
                 "run-time assert -> proof obligation")
    w.substitute("assert_eq!(0, this.total_capacity.get() % this.read_size.get());", "assert(0 == this.0 % this.2);", 1,
                 "run-time assert -> proof obligation (the ipa#1300 alignment rule)")
    w.insert_before("let this = (", """proof {
            lemma_pow2_pos(choose|e: nat| active as int == pow2(e));
            assert(active >= 1);
            assert(total_capacity >= record_size) by(nonlinear_arith) requires total_capacity == active * record_size, active >= 1, record_size > 0;
            let t = read_size_cfg / record_size;
            lemma_fundamental_div_mod(read_size_cfg as int, record_size as int);
            assert(record_size * t <= read_size_cfg) by(nonlinear_arith) requires read_size_cfg == record_size * t + read_size_cfg % record_size, read_size_cfg % record_size >= 0;
            assert(read_size_multiplier * record_size <= (if t == 0 { record_size as int } else { read_size_cfg as int })) by(nonlinear_arith)
                requires read_size_multiplier <= (if t == 0 { 1 } else { t as int }), record_size * t <= read_size_cfg, record_size > 0, read_size_multiplier >= 1;
            assert(read_size_multiplier * record_size >= 1) by(nonlinear_arith) requires read_size_multiplier >= 1, record_size >= 1;
        }
        """, "no overflow in `read_size_multiplier * record_size`; capacity >= record size")
    w.insert_before("// If capacity can't fit all active work items", """proof {
            let m = read_size_multiplier as int;
            let rs = record_size as int;
            let a = active as int;
            assert(record_size * active == active * record_size) by(nonlinear_arith);
            if indeterminate {
                lemma_mod_multiples_basic(a, rs);
                lemma_mod_self_0(rs);
            } else if m * rs >= a * rs {
                lemma_mod_self_0(a * rs);
                lemma_mod_multiples_basic(a, rs);
            } else {
                assert(m < a) by(nonlinear_arith) requires m * rs < a * rs, rs > 0;
                lemma_pow2_divides(m, a);
                let j = a / m;
                lemma_fundamental_div_mod(a, m);
                assert(a == m * j);
                assert(a * rs == j * (m * rs)) by(nonlinear_arith) requires a == m * j;
                assert(m * rs > 0) by(nonlinear_arith) requires m >= 1, rs > 0;
                lemma_mod_multiples_basic(j, m * rs);
                lemma_mod_multiples_basic(m, rs);
            }
        }
        """, "divisibility: read_size | total_capacity and record_size | read_size (powers of two divide larger powers of two)")
    out = """// WOVEN by /verif/verus/send_config.py from %(src)s (SendChannelConfig::new_with) -- do not edit
use vstd::prelude::*;
use vstd::arithmetic::power2::*;
use vstd::arithmetic::div_mod::*;
use vstd::arithmetic::mul::*;
verus! {

pub open spec fn is_pow2(n: int) -> bool { exists|e: nat| n == pow2(e) }

fn min(a: usize, b: usize) -> (r: usize) ensures r == if a <= b { a } else { b } { if a <= b { a } else { b } }

// NonZeroUsize::try_from(x).unwrap(): succeeds iff x > 0
fn nz(x: usize) -> (r: usize) requires x > 0, ensures r == x { x }

// contract of utils::non_zero_prev_power_of_two, discharged on the real function by engine K (c13_prev_power_of_two)
#[verifier::external_body]
fn non_zero_prev_power_of_two(target: usize) -> (r: usize)
    ensures is_pow2(r as int), r >= 1, r <= (if target == 0 { 1 } else { target as int }),
{ unimplemented!() }

proof fn lemma_pow2_divides(m: int, a: int)
    requires is_pow2(m), is_pow2(a), m <= a,
    ensures a %% m == 0, m > 0,
{
    let i = choose|e: nat| m == pow2(e);
    let k = choose|e: nat| a == pow2(e);
    lemma_pow2_pos(i);
    if k < i { lemma_pow2_strictly_increases(k, i); }
    assert(i <= k);
    lemma_pow2_adds(i, (k - i) as nat);
    assert(a == m * pow2((k - i) as nat));
    lemma_mod_multiples_basic(pow2((k - i) as nat) as int, m);
    assert(pow2((k - i) as nat) * m == m * pow2((k - i) as nat)) by(nonlinear_arith);
}

fn new_with(active: usize, read_size_cfg: usize, indeterminate: bool, record_size: usize) -> (this: (usize, usize, usize))
    requires record_size > 0, read_size_cfg > 0, is_pow2(active as int), active * record_size <= usize::MAX,
    ensures this.0 == active * record_size, this.1 == record_size,
            this.2 > 0, this.0 %% this.2 == 0, this.2 %% record_size == 0, this.2 <= this.0,
            indeterminate ==> this.2 == record_size,
{%(body)s}

}
fn main() {}
""" % {"src": SRC, "body": w.text}
    rep = w.report()
    rep["source"] = SRC + ": impl SendChannelConfig, fn new_with"
    return WeaveResult(out, rep, [path])
