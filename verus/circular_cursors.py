"""Weave spec: the cursor functions of `CircularBuf` (helpers/buffers/circular.rs).

kept verbatim   the struct's field list and the bodies of len, can_read, can_write, is_closed, capacity, is_empty,
                remaining, mask, wrap, inc, close (every statement)
substituted     nothing inside the bodies; the return type `-> T` becomes the named `-> (r: T)` Verus needs
dropped         doc comments / attributes; `debug_assert!(!self.closed, ..)` in close
woven in        spec fns cap/abs_len/wf, requires/ensures per function, two proof blocks at the heads of the two
                branches of `len`, and two lemma functions `advance_write` / `advance_read` that call the real `inc`
                exactly the way `Next::write` and `take` do
Not covered here (Verus rejects RangeInclusive / slice ranges / Vec::extend_from_slice): take, next, Next::write,
range, new -- engine K, bounded (kani/circular.rs).
"""
import os
import re

from verus_engine import WeaveError, WeaveResult, Weaver, find_item, match_brace

SRC = "ipa-core/src/helpers/buffers/circular.rs"

CONTRACTS = {
    # name: (return name/type rewrite, requires, ensures, {anchor: proof})
    "len": ("requires self.wf(),", "ensures r == self.abs_len(),"),
    "can_read": ("requires self.wf(),",
                 "ensures r == ((self.is_closed_spec() && self.abs_len() > 0) || self.abs_len() >= self.rs()),"),
    "can_write": ("requires self.wf(),",
                  "ensures r == (!self.is_closed_spec() && self.cap() - self.abs_len() >= self.ws()),"),
    "is_closed": ("", "ensures r == self.is_closed_spec(),"),
    "capacity": ("", "ensures r == self.cap(),"),
    "is_empty": ("requires self.wf(),", "ensures r == (self.abs_len() == 0),"),
    "remaining": ("requires self.wf(),", "ensures r == self.cap() - self.abs_len(),"),
    "mask": ("requires self.cap() > 0,", "ensures r == (val as int) % self.cap(),"),
    "wrap": ("requires self.cap() > 0, 2 * self.cap() <= usize::MAX,", "ensures r == (val as int) % (2 * self.cap()),"),
    "inc": ("requires self.cap() > 0, 2 * self.cap() <= usize::MAX, val + delta <= usize::MAX,",
            "ensures r == ((val + delta) as int) % (2 * self.cap()),"),
}

LEN_THEN = """
            proof { lemma_small_mod((self.write - self.read) as nat, (2 * self.cap()) as nat); }"""
LEN_ELSE = """
            proof {
                let c = self.cap();
                assert(self.read - self.write >= c);
                assert(self.write < c && self.read >= c);
                lemma_small_mod(self.write as nat, c as nat);
                lemma_mod_sub_multiples_vanish(self.read as int, c);
                lemma_small_mod((self.read - c) as nat, c as nat);
                assert((self.read as int) % c == self.read - c);
            }"""


def strip_docs(s):
    return "\n".join(l for l in s.splitlines() if not l.strip().startswith("///") and not l.strip().startswith("#["))


def build(repo, unit):
    path = os.path.join(repo, SRC)
    text = open(path).read()
    # struct
    ss, so, sc = find_item(text, r"pub struct CircularBuf \{")
    struct_body = strip_docs(text[so + 1:sc])
    fields = [l.strip() for l in struct_body.splitlines() if l.strip()]
    expect = ["write: usize,", "read: usize,", "read_size: usize,", "write_size: usize,", "closed: bool,", "data: Vec<u8>,"]
    if sorted(fields) != sorted(expect):
        raise WeaveError("CircularBuf fields changed: %r" % fields)
    # impl
    is_, io, ic = find_item(text, r"\nimpl CircularBuf \{")
    impl = text[io:ic + 1]
    report = {"kept_verbatim": [], "not_verbatim": [], "substituted": [], "dropped": [], "woven_in": [],
              "source": SRC + ": struct CircularBuf, impl CircularBuf"}
    fns_out = []
    for name, (req, ens) in CONTRACTS.items():
        hs, bo, bc = find_item(impl, r"\n    (pub )?fn %s\(&self[^)]*\) -> \w+ \{" % name)
        head = impl[hs:bo].strip()
        body = impl[bo + 1:bc]
        m = re.match(r"((?:pub )?fn \w+\([^)]*\)) -> (\w+)$", head)
        if not m:
            raise WeaveError("unexpected signature for %s: %r" % (name, head))
        w = Weaver(body)
        if name == "len":
            w.insert_after("if self.write >= self.read {", LEN_THEN, "proof: (write-read) mod 2cap is the identity below 2cap")
            w.insert_after("} else {", LEN_ELSE, "proof: masks of the two cursors when write has wrapped and read has not")
        r = w.report()
        report["kept_verbatim"] += ["%s: %s" % (name, l) for l in r["kept_verbatim"]]
        report["not_verbatim"] += ["%s: %s" % (name, l) for l in r["not_verbatim"]]
        report["woven_in"] += [{"anchor": "%s: %s" % (name, x["anchor"]), "what": x["what"]} for x in r["woven_in"]]
        report["woven_in"].append({"anchor": "%s: function head" % name, "what": (req + " " + ens).strip()})
        report["substituted"].append({"from": "%s -> %s" % (m.group(1), m.group(2)), "to": "%s -> (r: %s)" % (m.group(1), m.group(2)),
                                      "count": 1, "why": "named return value for the ensures clause"})
        fns_out.append("    %s -> (r: %s)\n        %s\n        %s\n    {%s}\n" % (m.group(1), m.group(2), req, ens, w.text))
    # close(&mut self)
    hs, bo, bc = find_item(impl, r"\n    pub fn close\(&mut self\) \{")
    w = Weaver(impl[bo + 1:bc])
    w.drop_statement(r"debug_assert!\(!self\.closed", "debug-only precondition: becomes `requires !old(self).closed`")
    r = w.report()
    report["kept_verbatim"] += ["close: %s" % l for l in r["kept_verbatim"]]
    report["dropped"] += r["dropped"]
    fns_out.append("""    pub fn close(&mut self)
        requires !old(self).is_closed_spec(), old(self).wf(),
        ensures final(self).is_closed_spec(), final(self).wf(), final(self).abs_len() == old(self).abs_len(),
                final(self).same_cursors(*old(self)),
    {%s}
""" % w.text)
    report["woven_in"].append({"anchor": "close: function head", "what": "requires open; ensures closed, cursors/data unchanged"})
    out = """// WOVEN by /verif/verus/circular_cursors.py from %(src)s -- do not edit
use vstd::prelude::*;
use vstd::arithmetic::div_mod::*;
verus! {

pub struct CircularBuf {
%(struct)s
}

impl CircularBuf {
    pub closed spec fn cap(&self) -> int { self.data.len() as int }
    /// abstract queue length
    pub closed spec fn abs_len(&self) -> int {
        if self.write >= self.read { self.write - self.read } else { 2 * self.cap() - self.read + self.write }
    }
    /// representation invariant (cursor part; `3*cap <= usize::MAX` is what `val + delta` in `inc` needs)
    pub closed spec fn wf(&self) -> bool {
        &&& self.cap() > 0
        &&& 3 * self.cap() <= usize::MAX
        &&& self.write < 2 * self.cap()
        &&& self.read < 2 * self.cap()
        &&& 0 <= self.abs_len() <= self.cap()
    }
    pub closed spec fn is_closed_spec(&self) -> bool { self.closed }
    pub closed spec fn rs(&self) -> int { self.read_size as int }
    pub closed spec fn ws(&self) -> int { self.write_size as int }
    pub closed spec fn same_cursors(&self, o: CircularBuf) -> bool {
        self.write == o.write && self.read == o.read && self.read_size == o.read_size
            && self.write_size == o.write_size && self.data == o.data
    }
    pub closed spec fn abs_len_of(&self, read: int, write: int) -> int {
        if write >= read { write - read } else { 2 * self.cap() - read + write }
    }

    // ---- real bodies ----
%(fns)s
    // ---- woven lemma functions: the cursor updates of `Next::write` and `take`, through the real `inc` ----
    // Next::write:  self.buf.write = self.buf.inc(self.buf.write, self.buf.write_size)
    fn advance_write(&self, delta: usize) -> (w: usize)
        requires self.wf(), delta <= self.cap() - self.abs_len(),
        ensures w < 2 * self.cap(),
                self.abs_len_of(self.read as int, w as int) == self.abs_len() + delta,
    {
        proof {
            let c = self.cap();
            let s = self.write + delta;
            if s < 2 * c { lemma_small_mod(s as nat, (2 * c) as nat); }
            else {
                lemma_mod_sub_multiples_vanish(s as int, 2 * c);
                lemma_small_mod((s - 2 * c) as nat, (2 * c) as nat);
            }
        }
        self.inc(self.write, delta)
    }

    // take:  self.read = self.inc(self.read, delta)
    fn advance_read(&self, delta: usize) -> (r: usize)
        requires self.wf(), delta <= self.abs_len(),
        ensures r < 2 * self.cap(),
                self.abs_len_of(r as int, self.write as int) == self.abs_len() - delta,
    {
        proof {
            let c = self.cap();
            let s = self.read + delta;
            if s < 2 * c { lemma_small_mod(s as nat, (2 * c) as nat); }
            else {
                lemma_mod_sub_multiples_vanish(s as int, 2 * c);
                lemma_small_mod((s - 2 * c) as nat, (2 * c) as nat);
            }
        }
        self.inc(self.read, delta)
    }
}

}
fn main() {}
""" % {"src": SRC, "struct": "\n".join("    " + f for f in expect), "fns": "\n".join(fns_out)}
    report["woven_in"].append({"anchor": "impl end", "what": "lemma fns advance_write / advance_read calling the real inc"})
    return WeaveResult(out, report, [path])
