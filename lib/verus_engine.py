"""Engine V: weave the *current* text of selected real functions into a `verus!` file and run Verus on it.

A unit's weave spec is /verif/verus/<spec>.py exposing `build(repo_root, unit) -> WeaveResult`. The helpers here
do the mechanical part: locate items by brace matching, apply a *declared* substitution table (every entry
must match its expected number of times, otherwise the weave fails = lost anchor, exit 2), and record, line by
line, what was kept verbatim, substituted or dropped, so that the evidence states exactly what the verified
text has in common with the code that runs.
"""
import importlib.util
import json
import os
import re
import subprocess
import time

VERIF = os.path.dirname(os.path.dirname(os.path.abspath(__file__)))
REPO = os.environ.get("IPA_REPO", "/repo")


class WeaveError(Exception):
    pass


# ------------------------------------------------------------------ source scanning
def _skip_noncode(text, i):
    """If text[i] starts a comment / string / char literal return the index just after it, else None."""
    c = text[i]
    if text.startswith("//", i):
        j = text.find("\n", i)
        return len(text) if j < 0 else j
    if text.startswith("/*", i):
        j = text.find("*/", i + 2)
        return len(text) if j < 0 else j + 2
    if c == '"':
        j = i + 1
        while j < len(text):
            if text[j] == "\\":
                j += 2
                continue
            if text[j] == '"':
                return j + 1
            j += 1
        return len(text)
    if c == "'":
        # char literal vs lifetime
        if i + 2 < len(text) and text[i + 1] == "\\":
            j = text.find("'", i + 2)
            return j + 1 if j > 0 else None
        if i + 2 < len(text) and text[i + 2] == "'":
            return i + 3
        return None
    return None


def match_brace(text, open_idx):
    """index of the `}` matching the `{` at open_idx"""
    assert text[open_idx] == "{", text[open_idx:open_idx + 20]
    depth = 0
    i = open_idx
    while i < len(text):
        s = _skip_noncode(text, i)
        if s is not None:
            i = s
            continue
        c = text[i]
        if c == "{":
            depth += 1
        elif c == "}":
            depth -= 1
            if depth == 0:
                return i
        i += 1
    raise WeaveError("unbalanced braces")


def find_item(text, head_regex, start=0, end=None):
    """Locate an item whose head matches `head_regex` (must be unique in [start,end)); returns
    (head_start, body_open, body_close) where body_open/close index the braces of its block."""
    seg = text[start:end]
    ms = list(re.finditer(head_regex, seg))
    if len(ms) != 1:
        raise WeaveError("anchor %r matched %d times (expected 1)" % (head_regex, len(ms)))
    m = ms[0]
    hs = start + m.start()
    bo = text.find("{", start + m.end() - 1) if text[start + m.end() - 1] != "{" else start + m.end() - 1
    if bo < 0:
        raise WeaveError("no block after anchor %r" % head_regex)
    bc = match_brace(text, bo)
    return hs, bo, bc


def code_lines(body):
    """non-empty, non-comment lines of a body, stripped"""
    out = []
    for l in body.splitlines():
        s = l.strip()
        if not s or s.startswith("//"):
            continue
        out.append(s)
    return out


class Weaver:
    """Tracks a body under transformation and the per-line report."""

    def __init__(self, original_body):
        self.original = original_body
        self.text = original_body
        self.subs = []      # (pattern, replacement, count, why)
        self.drops = []     # (line, why)
        self.woven = []     # (anchor, what)

    def substitute(self, old, new, count, why):
        n = self.text.count(old)
        if n != count:
            raise WeaveError("substitution anchor %r occurs %d times, expected %d" % (old, n, count))
        self.text = self.text.replace(old, new)
        self.subs.append({"from": old, "to": new, "count": count, "why": why})

    def substitute_re(self, pat, new, count, why):
        n = len(re.findall(pat, self.text))
        if n != count:
            raise WeaveError("substitution anchor /%s/ occurs %d times, expected %d" % (pat, n, count))
        self.text = re.sub(pat, new, self.text)
        self.subs.append({"from": "/" + pat + "/", "to": new, "count": count, "why": why})

    def drop_line(self, line_regex, why, count=1):
        lines = self.text.split("\n")
        hit = [i for i, l in enumerate(lines) if re.search(line_regex, l)]
        if len(hit) != count:
            raise WeaveError("drop anchor /%s/ matched %d lines, expected %d" % (line_regex, len(hit), count))
        for i in hit:
            self.drops.append({"line": lines[i].strip(), "why": why})
            lines[i] = ""
        self.text = "\n".join(lines)

    def drop_statement(self, start_regex, why):
        """drop a (possibly multi-line) macro statement starting at start_regex up to its closing `);`"""
        ms = list(re.finditer(start_regex, self.text))
        if len(ms) != 1:
            raise WeaveError("drop anchor /%s/ matched %d times, expected 1" % (start_regex, len(ms)))
        i = ms[0].start()
        # find the '(' then its match
        po = self.text.find("(", i)
        depth, j = 0, po
        while j < len(self.text):
            s = _skip_noncode(self.text, j)
            if s is not None:
                j = s
                continue
            if self.text[j] == "(":
                depth += 1
            elif self.text[j] == ")":
                depth -= 1
                if depth == 0:
                    break
            j += 1
        k = self.text.find(";", j)
        stmt = self.text[i:k + 1]
        self.drops.append({"line": " ".join(stmt.split()), "why": why})
        self.text = self.text[:i] + self.text[k + 1:]

    def insert_before(self, anchor, what, label, count=1, which=0):
        idxs = [m.start() for m in re.finditer(re.escape(anchor), self.text)]
        if len(idxs) != count:
            raise WeaveError("weave anchor %r occurs %d times, expected %d" % (anchor, len(idxs), count))
        i = idxs[which]
        self.text = self.text[:i] + what + self.text[i:]
        self.woven.append({"anchor": "before `%s`" % anchor.strip(), "what": label})

    def insert_after(self, anchor, what, label, count=1, which=0):
        idxs = [m.end() for m in re.finditer(re.escape(anchor), self.text)]
        if len(idxs) != count:
            raise WeaveError("weave anchor %r occurs %d times, expected %d" % (anchor, len(idxs), count))
        i = idxs[which]
        self.text = self.text[:i] + what + self.text[i:]
        self.woven.append({"anchor": "after `%s`" % anchor.strip(), "what": label})

    def loop_head(self, head, clauses, label):
        """`while cond {`  ->  `while cond <clauses> {`"""
        if self.text.count(head) != 1:
            raise WeaveError("loop anchor %r occurs %d times" % (head, self.text.count(head)))
        assert head.rstrip().endswith("{")
        i = self.text.index(head)
        bo = i + len(head.rstrip()) - 1
        self.text = self.text[:bo] + "\n" + clauses + "\n{" + self.text[bo + 1:]
        self.woven.append({"anchor": "loop head `%s`" % head.strip(), "what": label})

    def loop_body_end(self, head_prefix, what, label):
        """insert `what` as the last thing in the body of the (unique) loop whose head starts with head_prefix"""
        i = self.text.index(head_prefix)
        bo = self.text.index("{", self._after_clauses(i))
        bc = match_brace(self.text, bo)
        self.text = self.text[:bc] + what + self.text[bc:]
        self.woven.append({"anchor": "end of loop body `%s`" % head_prefix.strip(), "what": label})

    def loop_body_start(self, head_prefix, what, label):
        i = self.text.index(head_prefix)
        bo = self.text.index("{", self._after_clauses(i))
        self.text = self.text[:bo + 1] + what + self.text[bo + 1:]
        self.woven.append({"anchor": "start of loop body `%s`" % head_prefix.strip(), "what": label})

    def after_loop(self, head_prefix, what, label):
        i = self.text.index(head_prefix)
        bo = self.text.index("{", self._after_clauses(i))
        bc = match_brace(self.text, bo)
        self.text = self.text[:bc + 1] + what + self.text[bc + 1:]
        self.woven.append({"anchor": "after loop `%s`" % head_prefix.strip(), "what": label})

    def _after_clauses(self, i):
        # the loop block's `{` is the first `{` at column start after the head (clauses never contain `{` at line start
        # other than the block) -- we look for "\n{" if clauses were woven, else the first "{".
        j = self.text.find("\n{", i)
        k = self.text.find("{", i)
        nl = self.text.find("\n", i)
        if k != -1 and (nl == -1 or k < nl):
            return k
        return j + 1 if j != -1 else k

    def report(self):
        kept, changed = [], []
        final_lines = set(code_lines(self.text))
        for l in code_lines(self.original):
            if l in final_lines:
                kept.append(l)
            else:
                changed.append(l)
        return {
            "kept_verbatim": kept,
            "not_verbatim": changed,
            "substituted": self.subs,
            "dropped": self.drops,
            "woven_in": self.woven,
        }


class WeaveResult:
    def __init__(self, text, report, source_files):
        self.text = text
        self.report = report
        self.source_files = source_files


# ------------------------------------------------------------------ running Verus
def load_spec(name):
    p = os.path.join(VERIF, "verus", name + ".py")
    spec = importlib.util.spec_from_file_location("weave_" + name, p)
    m = importlib.util.module_from_spec(spec)
    spec.loader.exec_module(m)
    return m


def run_unit(u, outdir):
    os.makedirs(outdir, exist_ok=True)
    t0 = time.time()
    try:
        mod = load_spec(u["spec"])
        wr = mod.build(REPO, u)
    except WeaveError as e:
        return {"status": "weave-failed", "message": str(e), "time_s": time.time() - t0}
    except FileNotFoundError as e:
        return {"status": "weave-failed", "message": "source file missing: %s" % e, "time_s": time.time() - t0}
    path = os.path.join(outdir, u["id"] + ".rs")
    open(path, "w").write(wr.text)
    try:
        p = subprocess.run(["verus", path, "--output-json", "--time", "--rlimit", str(u.get("rlimit", 60))],
                           cwd=outdir, stdout=subprocess.PIPE, stderr=subprocess.PIPE, text=True,
                           timeout=u.get("timeout", 300))
    except subprocess.TimeoutExpired:
        return {"status": "timeout", "message": "verus timed out after %ss" % u.get("timeout", 300), "file": path,
                "weave_report": wr.report, "time_s": time.time() - t0}
    for f in (u["id"], "lib" + u["id"] + ".rlib"):
        fp = os.path.join(outdir, f)
        if os.path.exists(fp):
            os.remove(fp)
    res = {"file": path, "weave_report": wr.report, "raw": (p.stderr or "")[-8000:], "time_s": time.time() - t0}
    try:
        j = json.loads(p.stdout)
    except Exception:
        res.update(status="rejected", message="no JSON from verus: " + (p.stderr or p.stdout)[-1500:])
        return res
    vr = j.get("verification-results", {})
    res["total"] = vr.get("verified", 0) + vr.get("errors", 0)
    res["verified"] = vr.get("verified", 0)
    res["time_s"] = j.get("times-ms", {}).get("total", 0) / 1000.0 or res["time_s"]
    res["samples"] = [{"description": "Verus function obligation set: " + k, "function": k, "category": "verus",
                       "location": os.path.relpath(path, VERIF)}
                      for k in j.get("func-details", {}) if k.startswith(u["id"] + "::")][:4]
    err = p.stderr or ""
    VERIF_ERR = (r"error: ([a-z ]*not satisfied|assertion failed|assertion failure|possible arithmetic (underflow|overflow)|"
                 r"possible division by zero|possible bit shift|recommendation not met|unable to prove|nonlinear_arith|bit_vector)")
    RUST_ERR = r"error\[E\d+\]|is not supported|not yet support|unsupported|error: expected|cannot find|mismatched types"
    if vr.get("errors", 0) == 0 and vr.get("success"):
        res["status"] = "verified"
        return res
    if "verified" not in vr or vr.get("encountered-vir-error") or re.search(RUST_ERR, err) or not re.search(VERIF_ERR, err):
        if re.search(r"Resource limit \(rlimit\) exceeded|timed out", err) and not re.search(RUST_ERR, err):
            res.update(status="rlimit", message="Verus resource limit exceeded")
            return res
        # rustc / VIR error: unsupported construct or lost anchor in the proof text, not a verification failure
        res.update(status="rejected", message=err[-2500:])
        return res
    # a genuine verification failure: at least one obligation of the woven text is not provable
    failed = []
    for m in re.finditer(r"error: ([^\n]+)\n\s+--> ([^\n]+)\n(?:[^\n]*\n){0,3}?\s*(\d+)\s*\|\s*([^\n]*)", err):
        if m.group(1).startswith("aborting") or "Resource limit" in m.group(1):
            continue
        failed.append({"description": m.group(1).strip() + " :: " + m.group(4).strip()[:160], "function": u["fns"][0],
                       "category": "verus", "location": m.group(2).strip()})
    if not failed:
        failed = [{"description": "verus reported %d unverified obligation(s)" % vr.get("errors", 0),
                   "function": u["fns"][0], "category": "verus", "location": path}]
    res.update(status="failed", failed=failed)
    return res
