"""Engine V placeholder (filled in below)."""


def run_unit(u, outdir):
    return {"status": "weave-failed", "message": "engine V not built yet"}
