"""Unit table: every verification unit, the property it serves, the engine, the functions under
contract, its completeness label and (if bounded) the bound. Evidence is derived from this table
plus the verifier output of the run."""

UNITS = []
PROPS = {}


def K(id, prop, file, harness_mod, fns, label, clause, tier="quick", timeout=600, bound=None, assumes=(),
      min_covers=1, replay="playback", harness=None):
    UNITS.append(dict(id=id, prop=prop, engine="K", file=file, harness="%s::verif_kani::%s" % (harness_mod, harness or id),
                      fns=list(fns), label=label, clause=clause, tier=tier, timeout=timeout, bound=bound,
                      assumes=list(assumes), min_covers=min_covers, replay=replay))


def V(id, prop, spec, fns, label, clause, tier="quick", timeout=300, assumes=(), witness_unit=None, instance=None):
    UNITS.append(dict(id=id, prop=prop, engine="V", spec=spec, fns=list(fns), label=label, clause=clause, tier=tier,
                      timeout=timeout, bound=None, assumes=list(assumes), witness_unit=witness_unit, instance=instance))


def PY(id, prop, func, fns, clause, where="", tier="quick"):
    UNITS.append(dict(id=id, prop=prop, engine="PY", func=func, fns=list(fns), label="crosscheck", clause=clause,
                      tier=tier, bound=None, assumes=[], where=where))


# ============================================================================ C18
PROPS["C18"] = dict(
    level="proof",
    decided=["status meet over shards = least advanced status (min_status)",
             "allowed-transition table of QueryState::transition for every reachable (current, new) pair without a live task handle",
             "QueryStatus::from(&QueryState) is the obvious bijection on non-Empty states"],
    undecided=["histories of the async Processor API (transport, executor, shards, kill/complete races)",
               "transitions whose current or new state is Running (needs a tokio JoinHandle)"],
    trusted_base=[],
    assumptions=["call-site fact: QueryHandle::set_state is only called with Preparing / AwaitingInputs / Running (query/processor.rs)"],
    explanation="contracts on the transition table and the status meet, discharged for every argument value; "
                "the async request histories of the property statement are not decided",
)
K("c18_min_status", "C18", "query_state", "query::state", ["query::state::min_status"], "complete",
  "min_status(a,b) is the least advanced of a,b in Preparing<AwaitingInputs<Running<AwaitingCompletion<Completed; commutative; idempotent",
  min_covers=2)
