"""Unit table: every verification unit, the property it serves, the engine, the functions under
contract, its completeness label and (if bounded) the bound. Evidence is derived from this table
plus the verifier output of the run."""

UNITS = []
PROPS = {}


def K(id, prop, file, harness_mod, fns, label, clause, tier="quick", timeout=600, bound=None, assumes=(),
      min_covers=1, replay="playback", harness=None, native_test=None):
    UNITS.append(dict(id=id, prop=prop, engine="K", file=file, harness="%s::verif_kani::%s" % (harness_mod, harness or id),
                      fns=list(fns), label=label, clause=clause, tier=tier, timeout=timeout, bound=bound,
                      assumes=list(assumes), min_covers=min_covers, replay=replay, native_test=native_test))


def V(id, prop, spec, fns, label, clause, tier="quick", timeout=300, assumes=(), witness_unit=None, instance=None):
    UNITS.append(dict(id=id, prop=prop, engine="V", spec=spec, fns=list(fns), label=label, clause=clause, tier=tier,
                      timeout=timeout, bound=None, assumes=list(assumes), witness_unit=witness_unit, instance=instance))


def KW(id, prop, spec, harness, fns, label, clause, tier="quick", timeout=600, assumes=(), min_covers=1, native_template=None):
    UNITS.append(dict(id=id, prop=prop, engine="KW", spec=spec, harness=harness, fns=list(fns), label=label, clause=clause, tier=tier,
                      timeout=timeout, bound=None, assumes=list(assumes), min_covers=min_covers, native_template=native_template))


def PY(id, prop, func, fns, clause, where="", tier="quick"):
    UNITS.append(dict(id=id, prop=prop, engine="PY", func=func, fns=list(fns), label="crosscheck", clause=clause,
                      tier=tier, bound=None, assumes=[], where=where))


# ============================================================================ C18
PROPS["C18"] = dict(
    level="proof",
    decided=["status meet over shards = least advanced status (min_status)",
             "allowed-transition table of QueryState::transition for every reachable (current, new) pair without a live task handle",
             "QueryStatus::from(&QueryState) is the obvious bijection on non-Empty states"],
    undecided=["histories of the async Processor API (transport, executor, shards, kill/complete races)",
               "transitions whose current or new state is Running (needs a tokio JoinHandle)"],
    trusted_base=[],
    assumptions=["call-site fact: QueryHandle::set_state is only called with Preparing / AwaitingInputs / Running (query/processor.rs)"],
    explanation="contracts on the transition table and the status meet, discharged for every argument value; "
                "the async request histories of the property statement are not decided",
)
K("c18_min_status", "C18", "query_state", "query::state", ["query::state::min_status"], "complete",
  "min_status(a,b) is the least advanced of a,b in Preparing<AwaitingInputs<Running<AwaitingCompletion<Completed; commutative; idempotent",
  min_covers=2)

# ============================================================================ C08
PROPS["C08"] = dict(
    level="proof",
    decided=["Fp31, Fp32BitPrime, Fp61BitPrime: + - * neg and every reduction return the canonical representative of the "
             "mathematical result in Z/pZ for all canonical operands / all integer inputs (so -0 = 0, a + (-a) = 0, results compare "
             "equal iff equal); multiplicative inverses exist for every non-zero element (Verus, unbounded Euclid loop)",
             "deferred-reduction accumulator (Fp61, 64 products) and its array form: no u128 overflow, value' = value + a*b or its reduction",
             "generic accumulator (Fp32), replicated-share + - neg scalar-mul act componentwise (Fp32, Fp61)",
             "Boolean (GF(2)) exhaustively; DZKP constants 1/2, -1/2, -2; moduli of the seven binary fields are the documented irreducible polynomials",
             "binary-field multiplication core (portable clmul + reduction loop, woven, integer operands): product fits in BITS bits for all seven fields; identity/commutativity/distributivity "
             "and existence of inverses for Gf2, Gf3Bit, Gf8Bit, Gf9Bit (all operands); associativity for Gf2/Gf3Bit; commutativity up to 32 bits, distributivity up to 20 bits",
             "bit arrays: truncate_from little endian with zero padding; Not stays inside BITS bits"],
    undecided=["binary fields: the bitvec load/store around the multiplication core, the pclmulqdq/aarch64 intrinsic paths, associativity above 3 bits, distributivity above 20 bits, commutativity at 40 bits (SAT does not finish)",
               "Fp25519 / curve points (external curve25519-dalek)", "batch_invert (the 900-pair Fp31 enumeration does not finish in 30 min) and Lagrange tables",
               "serialisation identity of equal values (GenericArray plumbing aborts CBMC)"],
    trusted_base=["primality of 31, 2^32-5, 2^61-1 and irreducibility of the seven GF(2) moduli (cross-checked each run with sympy, not proved)",
                  "field laws (associativity, distributivity, no zero divisors) are theorems of Z/pZ and transfer through "
                  "'op computes the spec function on canonical representatives' -- not re-proved on the code"],
    assumptions=[],
    explanation="function contracts on the real field operations discharged for all inputs; see units",
)
_FIELDS = [("fp31", "Fp31", "ff::prime_field::fp31"), ("fp32", "Fp32BitPrime", "ff::prime_field::fp32bit"),
           ("fp61", "Fp61BitPrime", "ff::prime_field::fp61bit")]
for f, T, m in _FIELDS:
    def k(h, fns, clause, **kw):
        K("c08_%s_%s" % (f, h), "C08", f, m, fns, "complete", clause, harness=h, **kw)
    k("constants", ["%s::PRIME" % T, "%s::ZERO" % T, "%s::ONE" % T, "%s::BITS" % T], "PRIME/ZERO/ONE/BITS are the documented constants")
    k("add_contract", ["<%s as Add>::add" % T], "canon(r) and val(r) = val(a)+val(b) reduced once, for all canonical a,b", min_covers=2)
    k("sub_contract", ["<%s as Sub>::sub" % T], "canon(r) and val(r) = val(a)-val(b) (+P if negative)", min_covers=2)
    k("mul_contract", ["<%s as Mul>::mul" % T], "canon(r) and val(r) = (val(a)*val(b)) mod P", timeout=900,
      assumes=["stub_verified(modulo_prime_base): callee replaced by its contract, proved by unit reduce_base_contract"])
    k("neg_contract", ["<%s as Neg>::neg" % T], "canon(r) and val(r) = P - val(a), 0 for a = 0 (so -0 = 0)", min_covers=2)
    k("reduce_base_contract", ["%s::modulo_prime_base" % T], "canonical representative of input mod P for every value of the operation store type",
      min_covers=2, timeout=900, assumes=(["stub_verified(modulo_prime_u128), proved by unit reduce_u128_contract"] if f == "fp61" else []))
    k("reduce_u128_contract", ["%s::modulo_prime_u128" % T], "canonical representative of input mod P for every u128", min_covers=2, timeout=1500)
    k("truncate_from_any", ["<%s as U128Conversions>::truncate_from" % T, "<%s as FromRandomU128>::from_random_u128" % T, "<%s as U128Conversions>::as_u128" % T],
      "truncate_from / from_random_u128 are modulo_prime_u128 of the widened argument")
    k("try_from_ok_side", ["<%s as TryFrom<u128>>::try_from" % T], "Ok <=> the value fits in BITS bits, and then the canonical reduction", min_covers=2,
      assumes=["kani::stub(alloc::fmt::format): only builds the error message"])
    k("assign_ops", ["<%s as AddAssign>::add_assign" % T, "<%s as SubAssign>::sub_assign" % T, "<%s as MulAssign>::mul_assign" % T],
      "compound assignment = binary operator")
    k("eq_and_store", ["<%s as PartialEq>::eq" % T, "<%s as ConstantTimeEq>::ct_eq" % T, "From<%s> for storage" % T], "equal values compare equal and convert to the same integer")
K("c08_fp61_const_truncate_contract", "C08", "fp61", "ff::prime_field::fp61bit", ["Fp61BitPrime::const_truncate"], "complete",
  "canonical reduction of every u64", harness="const_truncate_contract")
K("c08_fp61_from_bit_total", "C08", "fp61", "ff::prime_field::fp61bit", ["Fp61BitPrime::from_bit"], "complete",
  "from_bit(b) is canonical and equals b", harness="from_bit_total")
for f, T, m in _FIELDS:
    V("c08_invert_%s" % f, "C08", "invert", ["<%s as PrimeField>::invert" % T], "complete",
      "for all 0 < a < P: canon(r) and a*r = 1 (mod P); no u128 overflow; termination", instance=T,
      assumes=["prime(P) (mathematical fact, cross-checked by sympy)",
               "external_body verif_try_from_unwrap: try_from(x).unwrap() = x for x < P (engine K units try_from_ok_side + reduce_u128_contract)",
               "the element's canonical value is passed as integer parameter (canon(self), engine K invariant)"],
      witness_unit="c08_invert_fp31_exhaustive")
K("c08_invert_fp31_exhaustive", "C08", "prime_field", "ff::prime_field", ["<Fp31 as PrimeField>::invert (unsubstituted)"], "complete-for-instance",
  "a * invert(a) = 1 for all 30 non-zero elements (enumerated); witness source for the Verus unit", timeout=900)
_A = "ff::accumulator"
K("c08_acc_constants", "C08", "accumulator", _A, ["Accumulator::new", "Accumulator::from"], "complete",
  "REDUCE_INTERVAL = 64 with a u128 accumulator cannot overflow: 64*(P-1)^2 + (P-1) < 2^128; new/from establish the invariant")
K("c08_acc_step_bound", "C08", "accumulator", _A, ["Accumulator<Fp61BitPrime,u128,64>::multiply_accumulate"], "complete",
  "invariant count < 64 and value <= (P-1) + count*(P-1)^2 is preserved; += and * cannot overflow", min_covers=2,
  assumes=["stub_verified(modulo_prime_u128)"])
K("c08_acc_step_value", "C08", "accumulator", _A, ["Accumulator<Fp61BitPrime,u128,64>::multiply_accumulate"], "complete",
  "value' = value + a*b, or truncate_from(value + a*b) with count' = 0 when the interval is reached", min_covers=2)
K("c08_acc_take", "C08", "accumulator", _A, ["Accumulator<Fp61BitPrime,u128,64>::take"], "complete", "take() = truncate_from(value)")
K("c08_acc_array2_step", "C08", "accumulator", _A, ["Accumulator<Fp61BitPrime,[u128;2],64>::multiply_accumulate"], "complete-for-instance",
  "each lane: value' = value + a*b, or truncate_from of it with count' = 0 at the interval (N = 2)", min_covers=2, timeout=900)
K("c08_acc_array2_bound", "C08", "accumulator", _A, ["Accumulator<Fp61BitPrime,[u128;2],64>::multiply_accumulate"], "complete-for-instance",
  "the step preserves count < 64 and the per-lane bound (no u128 overflow within an interval)", min_covers=2, timeout=900,
  assumes=["stub_verified(modulo_prime_u128)"])
K("c08_acc_array2_take", "C08", "accumulator", _A, ["Accumulator<Fp61BitPrime,[u128;2],64>::take"], "complete-for-instance", "lane i = truncate_from(value[i])")
K("c08_acc_generic_fp32", "C08", "accumulator", _A, ["<Fp32BitPrime as MultiplyAccumulator>::multiply_accumulate"], "complete-for-instance",
  "acc' = acc + a*b with the field operators")
_S = "secret_sharing::replicated::semi_honest::additive_share"
for f in ("fp32", "fp61"):
    K("c08_share_linear_%s" % f, "C08", "additive_share", _S, ["AdditiveShare: Add, Sub, Neg, AddAssign, SubAssign (all reference forms)"], "complete-for-instance",
      "componentwise with the field operation => reconstruction is a homomorphism", assumes=["stub_verified(add, sub, neg) of the field"])
    K("c08_share_scale_%s" % f, "C08", "additive_share", _S, ["AdditiveShare: Mul<F> (all reference forms)"], "complete-for-instance",
      "scalar multiplication componentwise", assumes=["stub_verified(mul) of the field"])
K("c08_boolean_field", "C08", "boolean", "ff::boolean", ["Boolean: Add Sub Mul Neg Not *Assign"], "complete", "GF(2) tables and axioms, exhaustive", min_covers=2)
K("c08_boolean_conversions", "C08", "boolean", "ff::boolean", ["Boolean::truncate_from", "Boolean::try_from", "Boolean::from_random_u128"], "complete",
  "low bit / exactly 0 and 1", min_covers=2)
for w_ in ("ba3", "ba20", "ba8"):
    K("c08_%s_not%s" % (w_, "" if w_ == "ba8" else "_padding"), "C08", "boolean_array", "ff::boolean_array", ["<%s as Not>::not" % w_.upper()], "complete-for-instance",
      "bitwise complement stays inside BITS bits (padding bits zero), all values", timeout=900)
K("c08_dzkp_constants", "C08", "dzkp_field", "protocol::context::dzkp_field", ["<Fp61BitPrime as DZKPBaseField>::{INVERSE_OF_TWO,MINUS_ONE_HALF,MINUS_TWO}"], "complete",
  "2*INVERSE_OF_TWO = 1, MINUS_ONE_HALF + INVERSE_OF_TWO = 0, MINUS_TWO + 2 = 0 (mod P), all canonical")
_GF_ASSUME = ["weave: operands' bitvec load (as_u128) and the result's bitvec store (try_from) are dropped and trusted; only the portable clmul path is woven"]
_GF = {"gf2": ("Gf2", ["fits_identity", "commut", "distrib", "assoc", "inverse"], []),
       "gf3bit": ("Gf3Bit", ["fits_identity", "commut", "distrib", "assoc", "inverse"], []),
       "gf8bit": ("Gf8Bit", ["fits_identity", "commut", "distrib", "inverse"], []),
       "gf9bit": ("Gf9Bit", ["fits_identity", "commut", "distrib", "inverse"], []),
       "gf20bit": ("Gf20Bit", ["fits_identity", "commut"], ["distrib"]),
       "gf32bit": ("Gf32Bit", ["fits_identity"], ["commut"]),
       "gf40bit": ("Gf40Bit", ["fits_identity"], [])}
_GF_CLAUSE = {"fits_identity": "reduced product < 2^BITS (try_from cannot fail); 1 is the identity; 0 annihilates", "commut": "x*y = y*x",
              "distrib": "x*(y+z) = x*y + x*z", "assoc": "(x*y)*z = x*(y*z)", "inverse": "x * x^(2^BITS-2) = 1 for every x != 0 (inverses exist, no zero divisors)"}
for g_, (T_, q_, t_) in _GF.items():
    for a_ in q_ + t_:
        KW("c08_%s_%s" % (g_, a_), "C08", "gf_mul", "gf_%s_%s" % (g_, a_), ["clmul (portable path)", "<%s as Mul>::mul (reduction loop)" % T_],
           "complete-for-instance", _GF_CLAUSE[a_] + ", all operands", tier=("quick" if a_ in q_ else "thorough"), timeout=900, assumes=_GF_ASSUME,
           native_template={"file": "gf_axioms.rs", "name": "verif_replay_gf_axioms", "module": "galois_field", "type": T_,
                            "bits": {"gf2": 1, "gf3bit": 3, "gf8bit": 8, "gf9bit": 9, "gf20bit": 20, "gf32bit": 32, "gf40bit": 40}[g_]})
PY("c08_math_facts", "C08", "c08_math_facts", ["field_impl! PRIME literals", "galois_field POLYNOMIAL literals"],
   "primality of the three PRIME literals read from the source; irreducibility over GF(2) of the seven POLYNOMIAL literals read from the source",
   where="ipa-core/src/ff/prime_field.rs, ipa-core/src/ff/galois_field.rs")

# ============================================================================ C09
PROPS["C09"] = dict(
    level="proof",
    decided=["bit-matrix transposes 8x8 and 16x16 are exact transposes (out[j].bit(i) = in[i].bit(j)) and involutions; blocked transpose visits every block once",
             "table-index packing bits_to_table_indices", "PrssIndex128 <-> u128/u64 round trip and rejection of out-of-range values",
             "prime-field deserialize accepts exactly integers < PRIME (canonical encodings)", "Boolean::deserialize accepts exactly 0/1; event type byte accepts exactly 0/1"],
    undecided=["every Serializable impl as such (field elements, bit arrays and padding-bit rejection, shares, reports, proof/hash arrays, seeds): "
               "GenericArray construction/conversion aborts CBMC and is outside Verus' subset",
               "QueryConfig serde / URL encoding", "executor::Result for Vec<T>", "curve points", "BooleanArrayWriter/Reader field packing",
               "the macro-generated tile drivers around the kernels (impl_transpose_16!/impl_transpose_8! instances such as [BA64; 64] -> [BA64; 64]): "
               "the smallest real instance (4096 symbolic bits, 16 tiles) exhausted the memory cap / timed out at 1500 s (seed C09-3 is missed there)"],
    trusted_base=["<backend_store>::from_le_bytes((*buf).into()) yields the little-endian integer of the buffer (std + generic-array; dropped by the weave)"],
    assumptions=[],
    explanation="scoped to layout changes and the canonical-range decision",
)
_T = "secret_sharing::vector::transpose"
K("c09_transpose_8x8", "C09", "transpose", _T, ["transpose_8x8"], "complete", "out[j].bit(i) = in[i].bit(j)", min_covers=2)
K("c09_transpose_8x8_involution", "C09", "transpose", _T, ["transpose_8x8"], "complete", "transpose(transpose(x)) = x")
K("c09_transpose_16x16", "C09", "transpose", _T, ["transpose_16x16"], "complete", "out[j].bit(i) = in[i].bit(j), 16x16", min_covers=2)
K("c09_transpose_16x16_involution", "C09", "transpose", _T, ["transpose_16x16"], "complete", "transpose(transpose(x)) = x")
K("c09_do_transpose_16_blocks", "C09", "transpose", _T, ["do_transpose_16"], "bounded", "block (i,j) -> transposed block (j,i), each once", bound="2x3 blocks")
K("c09_bits_to_table_indices", "C09", "dzkp_field", "protocol::context::dzkp_field", ["bits_to_table_indices"], "complete",
  "nibble i/4 of word i%4 = b0[i] | b1[i]<<1 | b2[i]<<2", harness="c03_bits_to_table_indices", min_covers=2)
K("c09_prss_index128_roundtrip", "C09", "prss", "protocol::prss", ["PrssIndex128::new", "From<PrssIndex128> for u128", "TryFrom<u128> for PrssIndex128"], "complete",
  "injective, inverse, Err iff offset > 2^11", harness="c06_prss_index128_injective", min_covers=3)
K("c09_prss_index128_try_from", "C09", "prss", "protocol::prss", ["TryFrom<u128> for PrssIndex128"], "complete",
  "Ok iff < 2^64 and offset <= 2^11; decode(encode) identity", harness="c06_prss_index128_try_from", min_covers=2)
for w_, b_ in (("ba3", 3), ("ba8", 8), ("ba20", 20), ("ba32", 32), ("ba64", 64)):
    K("c09_%s_truncate_le" % w_, "C09", "boolean_array", "ff::boolean_array", ["<%s as U128Conversions>::truncate_from" % w_.upper(), "%s::as_raw_slice" % w_.upper()], "complete-for-instance",
      "storage bytes = low %d bits of the integer, little endian, padding bits zero" % b_, timeout=900, tier=("quick" if b_ <= 20 else "thorough"))
K("c09_boolean_deserialize", "C09", "boolean", "ff::boolean", ["<Boolean as Serializable>::deserialize"], "complete", "Ok iff byte <= 1, all 256 bytes", min_covers=2)
K("c09_event_type", "C09", "report_hybrid", "report::hybrid", ["HybridEventType::try_from"], "complete", "Ok iff byte in {0,1}", harness="c10_event_type_try_from", min_covers=2)
for f, T, m in _FIELDS:
    V("c09_field_decode_%s" % f, "C09", "field_decode", ["<%s as Serializable>::deserialize (decision)" % T], "complete",
      "Ok(x) <=> v < PRIME and val(x) = v", instance=T, assumes=["byte-to-integer conversion dropped and trusted"])

# ============================================================================ C03
PROPS["C03"] = dict(
    level="proof",
    decided=["u/v lookup tables: for all 64 gate assignments sum_k U[..][k]*V[..][k] = -1/2 <=> e = ab^cd^f on the real TABLE_U/TABLE_V with real field arithmetic (zero padding row included)",
             "the index fed to the tables is the triple of bits at the same position (bits_to_table_indices)",
             "recursion constants: depth suffices for the largest batch"],
    undecided=["ProofBatch::generate, BatchToVerify::verify, Fiat-Shamir hashing, Batch::validate (async, PRSS, channels)",
               "segment packing insert_segment_small/large and table_indices_* on Array256Bit (bitvec sub-slice loads)",
               "end-to-end 'flip any bit => some helper rejects'"],
    trusted_base=[], assumptions=[],
    explanation="scoped to mechanism 1 (the algebraic identity the whole check rests on)",
)
_D = "protocol::context::dzkp_field"
K("c03_bits_to_table_indices", "C03", "dzkp_field", _D, ["bits_to_table_indices"], "complete", "index layout", min_covers=2)
K("c03_uv_table_identity_sym", "C03", "dzkp_field", _D, ["TABLE_U", "TABLE_V", "Fp61BitPrime mul/add"], "complete",
  "consistency <=> -1/2 contribution, symbolic gate assignment (all 64)", min_covers=3, timeout=900)
K("c03_uv_table_identity", "C03", "dzkp_field", _D, ["TABLE_U", "TABLE_V"], "complete", "same, unrolled enumeration; exactly 32 consistent assignments",
  tier="thorough", timeout=1800)
K("c03_recursion_constants", "C03", "proof_generation", "protocol::ipa_prf::validation_protocol::proof_generation",
  ["FirstProofGenerator/CompressedProofGenerator recursion factors", "MAX_PROOF_RECURSION", "MIN_PROOF_RECURSION", "TARGET_PROOF_SIZE"], "complete",
  "L*(S-1)*S^(d-2) >= 4*TARGET_PROOF_SIZE and MIN_PROOF_RECURSION >= 2")

# ============================================================================ C14
PROPS["C14"] = dict(
    level="proof",
    decided=["CircularBuf cursor functions len/can_read/can_write/is_empty/remaining/mask/wrap/inc/capacity/close against the abstract queue length, every capacity (Verus)",
             "cursor updates of write/take preserve the invariant and change the length by exactly delta (Verus lemma fns through the real inc)",
             "BOUNDED (cap <= 8): take/write contents, frame, FIFO order against a reference queue",
             "WaitingShard guard lemma (all positions): after wake(j) and any later wake, a registration with a stale view (current < j) is rejected; BOUNDED (<= 3 saved wakers): wake() contract incl. woken_at' = max(woken_at, i)",
             "BOUNDED: OperatingState::add_waker: one waker per ring slot, overflow list for far-ahead records"],
    undecided=["OrderingSender::next_op and the callers of WaitingShard / OperatingState: interleavings over atomics, mutex hand-over and wakers; UnorderedReceiver Spare (GenericArray: CBMC abort); "
               "Kani has no threads, Verus would need permission-typed re-implementations (= a model)", "blocking / wake-ups / lost wake-ups"],
    trusted_base=[], assumptions=[],
    explanation="proof for the cursor algebra of the ring buffer; contents bounded; interleavings undecided",
)
V("c14_circular_cursors", "C14", "circular_cursors", ["CircularBuf::{len,can_read,can_write,is_closed,capacity,is_empty,remaining,mask,wrap,inc,close}"], "complete",
  "post-conditions in terms of abs_len; wf needs 3*cap <= usize::MAX", witness_unit="c14_cursor_contracts_k")
_C = "helpers::buffers::circular"
K("c14_cursor_contracts_k", "C14", "circular", _C, ["CircularBuf cursor fns (unsubstituted)"], "bounded", "same contracts on the unsubstituted code", bound="cap <= 64", min_covers=3)
K("c14_new_contract", "C14", "circular", _C, ["CircularBuf::new"], "bounded", "establishes wf with empty queue", bound="cap <= 8")
K("c14_write_contract", "C14", "circular", _C, ["CircularBuf::next", "Next::write"], "bounded", "ws bytes at mask(write) = message, frame, len + ws, wf", bound="cap <= 8, ws <= 2", min_covers=2)
K("c14_take_contract", "C14", "circular", _C, ["CircularBuf::take"], "bounded", "min(rs, len) bytes in queue order (all when closed), read advanced, data unchanged, wf", bound="cap <= 8", min_covers=3)
K("c14_close_contract", "C14", "circular", _C, ["CircularBuf::close"], "bounded", "only sets the flag", bound="cap <= 8")
K("c14_fifo_against_reference", "C14", "circular", _C, ["CircularBuf::{new,next,take,close}", "Next::write"], "bounded",
  "any <= 4 operations return the reference queue's bytes in order", bound="cap <= 4, ws <= 2, 4 operations", min_covers=2, timeout=1200, tier="thorough")

_O = "helpers::buffers::ordering_sender"
K("c14_waiting_shard_wake_contract", "C14", "ordering_sender", _O, ["WaitingShard::wake"], "bounded",
  "woken_at' = max(woken_at, i) (monotone guard); the waker saved for i is woken exactly once and it and all smaller indices are removed; nothing else changes",
  bound="<= 3 saved wakers, symbolic indices", min_covers=3, timeout=1200, tier="thorough")
K("c14_waiting_shard_guard_lemma", "C14", "ordering_sender", _O, ["WaitingShard::wake", "WaitingShard::add"], "complete",
  "after wake(j) and any further wake(a), add(current < j, ..) is rejected, all usize j, a, current (no saved wakers)", min_covers=2, timeout=900)
_U = "helpers::buffers::unordered_receiver"
K("c14_receiver_add_waker_contract", "C14", "unordered_receiver", _U, ["OperatingState::add_waker", "OperatingState::is_next"], "bounded",
  "one waker per ring slot (re-registration replaces), far-ahead wakers go to the overflow list, cursor untouched",
  bound="ring capacity in {2,4}, start cursor < 4, enumerated", timeout=1200, tier="thorough")

# ============================================================================ C18 (rest)
K("c18_transition_table", "C18", "query_state", "query::state", ["QueryState::transition"], "complete",
  "Ok exactly for Empty->Preparing, Empty->AwaitingInputs, Preparing->AwaitingInputs; AlreadyRunning / InvalidState otherwise; no panic", min_covers=3, timeout=900)
K("c18_status_of_state", "C18", "query_state", "query::state", ["QueryStatus::from(&QueryState)"], "complete", "names the state it is given")

# ============================================================================ C06
PROPS["C06"] = dict(
    level="proof",
    decided=["PrssIndex128 packing: distinct (index, offset) => distinct block-cipher input; offsets > 2^11 rejected",
             "index / record-id arithmetic never wraps silently (checked add, exact conversions)",
             "MAC batch record ids (offset,k) -> total*offset + k are exact and pairwise distinct"],
    undecided=["pairwise equality of left/right values (X25519 + HKDF + AES in external crates)", "'unrelated' (cryptographic assumption)",
               "whole-execution no-reuse, UsedSet (mutex + HashSet + format!)", "cross-shard seed distribution (async)",
               "DZKP PRSS_RECORDS_PER_BATCH ranges (fn-local const of an async fn: cannot be named from a harness)"],
    trusted_base=[], assumptions=[],
    explanation="scoped to index arithmetic",
)
_P = "protocol::prss"
K("c06_prss_index128_injective", "C06", "prss", _P, ["PrssIndex128::new", "From<PrssIndex128> for u128/u64", "TryFrom<u128>"], "complete", "injective + inverse", min_covers=3)
K("c06_prss_index128_try_from", "C06", "prss", _P, ["TryFrom<u128> for PrssIndex128"], "complete", "Ok iff representable", min_covers=2)
K("c06_prss_index_add_no_wrap", "C06", "prss", _P, ["AddAssign<u32> for PrssIndex", "From<u128> for PrssIndex"], "complete", "exact when in range (panics otherwise)")
K("c06_prss_offset_chunks_distinct", "C06", "prss", _P, ["PrssIndex::offset"], "complete", "chunks k1 != k2 of one index give distinct cipher inputs")
K("c06_mac_batch_record_ids", "C06", "validator", "protocol::context::validator", ["Malicious::{u_record,w_record,r_share_record,reveal_check_zero_record}"], "complete",
  "exact and pairwise distinct for totals 3 and 2", min_covers=2)
K("c06_record_id_arith", "C06", "protocol_mod", "protocol", ["RecordId: From<usize>, Add<usize>, AddAssign<usize>", "From<RecordId> for PrssIndex"], "complete", "exact conversions")

# ============================================================================ C12
PROPS["C12"] = dict(
    level="proof",
    decided=["NoiseParams::new accepts exactly the documented ranges (all non-NaN f64)",
             "OPRFPaddingDp::new validation prefix accepts exactly the documented ranges and yields truncation point >= sensitivity",
             "sample_shares: noise value -n..n maps to (value mod 2^width) on the non-excluded side and 0 on the other, widths 8/16/32 (so -1 is reachable at every width)",
             "BOUNDED: deterministic skeleton of the rejection sampler over an explicit coin tape: first in-range draw of shift + G1 - G2, unchanged"],
    undecided=["the probability law, find_smallest_n / right_hand_side / pow_u32 (transcendental floats), the rejection sampler",
               "dummy-record sharing and the three noise passes (interactive)", "NaN parameters"],
    trusted_base=[], assumptions=["assumed contract of the sampler: 0 <= sample <= 2*shift", "assumed contract of find_smallest_n: big_delta <= n <= 1_000_000"],
    explanation="scoped to the validation and integer clauses",
)
K("c12_noise_params_new", "C12", "dp", "protocol::dp", ["NoiseParams::new"], "complete", "is_ok <=> documented range", min_covers=2)
K("c12_padding_dp_new_validation", "C12", "oprf_insecure", "protocol::ipa_prf::oprf_padding::insecure", ["OPRFPaddingDp::new"], "complete",
  "is_ok <=> documented range (epsilon <= 1e300)", min_covers=2, assumes=["kani::stub(find_smallest_n) by its assumed contract"], replay="none")
K("c12_rejection_sampler_skeleton", "C12", "oprf_distributions", "protocol::ipa_prf::oprf_padding::distributions",
  ["<TruncatedDoubleGeometric as Distribution<u32>>::sample", "<DoubleGeometric as Distribution<i32>>::sample", "<Geometric as Distribution<u32>>::sample"], "bounded",
  "result = first draw shift + G1 - G2 in [0, 2*shift], unchanged; out-of-range draws are rejected and redrawn; exactly those coins are consumed",
  bound="coin tape <= 8, shift <= 2", min_covers=4, timeout=1800, replay="playback")
K("c12_shifted_laplace_new_modulus", "C12", "dp", "protocol::dp", ["ShiftedTruncatedDiscreteLaplace::new"], "complete",
  "stored modulus = 2^bit_size for every bit_size in 1..=32; stored shift = the sampler's truncation point", min_covers=2, timeout=900, replay="none",
  assumes=["kani::stub(OPRFPaddingDp::new): some shift <= 1_000_000"], native_test={"file": "c12_sample_shares.rs", "name": "verif_replay_sample_shares_minus_one"})
for w_, u_ in (("ba8", 10), ("ba16", 18), ("ba32", 34)):
    K("c12_sample_shares_%s" % w_, "C12", "dp", "protocol::dp", ["ShiftedTruncatedDiscreteLaplace::sample_shares"],
      "complete-for-instance", "share = (sample - shift) mod 2^width on the non-excluded side, 0 on the other", min_covers=3, replay="none",
      assumes=["kani::stub(sample) by its assumed contract 0 <= s <= 2*shift", "state as established by new (unit c12_shifted_laplace_new_modulus)"], timeout=1500,
      native_test={"file": "c12_sample_shares.rs", "name": "verif_replay_sample_shares_minus_one"})

# ============================================================================ C13
PROPS["C13"] = dict(
    level="proof",
    decided=["capacity / read-size alignment rule of SendChannelConfig::new_with for every power-of-two active, record size and configured read size (Verus): "
             "total_capacity = active*record_size, record_size | read_size | total_capacity, 0 < read_size <= capacity, read_size = record_size when indeterminate; the function's own asserts cannot fire",
             "non_zero_prev_power_of_two and NonZeroU32PowerOfTwo::try_from for all usize",
             "TotalRecords::is_last: the channel-close predicate is true exactly for record n - 1 of a declared count n"],
    undecided=["delivery to the matching receive, ordering, closure at the declared count, deadlock freedom itself (async, multi-task)"],
    trusted_base=[], assumptions=[],
    explanation="scoped to the arithmetic premise of 'no deadlock while <= window records are outstanding' (ipa#1300)",
)
V("c13_send_config", "C13", "send_config", ["SendChannelConfig::new_with"], "complete", "alignment rule, all inputs",
  assumes=["external_body non_zero_prev_power_of_two used through its contract (engine K unit c13_prev_power_of_two)", "five declared substitutions (see weave report)"])
K("c13_prev_power_of_two", "C13", "power_of_two", "utils::power_of_two", ["non_zero_prev_power_of_two"], "complete", "power of two, r <= max(1,t) < 2r", min_covers=3)
K("c13_nonzero_pow2_try_from", "C13", "power_of_two", "utils::power_of_two", ["NonZeroU32PowerOfTwo::try_from", "get", "to_non_zero_usize"], "complete",
  "accepts exactly powers of two in 1..u32::MAX", min_covers=2)
K("c13_total_records_is_last", "C13", "send", "helpers::gateway::send", ["TotalRecords::is_last", "TotalRecords::specified", "TotalRecords::count"], "complete",
  "is_last(r) <=> count specified as n and r = n - 1 (the close-at-declared-count predicate of GatewaySender::send)", min_covers=2)
for rec in (1, 2, 3, 4, 8, 12, 16, 24, 32, 96, 4097):
    K("c13_send_config_grid_rec%d" % rec, "C13", "send", "helpers::gateway::send", ["SendChannelConfig::new_with (unsubstituted)"], "bounded",
      "same rule on the unsubstituted function", bound="active = 2^k, k <= 16; record_size = %d; read_size_cfg <= 2^20" % rec,
      tier=("quick" if rec in (1, 3, 16) else "thorough"), timeout=900)

# ============================================================================ C11
PROPS["C11"] = dict(
    level="proof",
    decided=["UniqueTag::shard_picker: for all 2^128 tags and shard counts 1..=8: result < n and equal tags give equal shards (copies of a report route to the same existing shard)",
             "from_unique_bytes is a byte copy"],
    undecided=["reshard_aad (async exchange)", "UniqueTagValidator::check_duplicates over the real HashSet", "'before attribution starts' ordering", "shard counts > 8 (symbolic divisor does not finish)"],
    trusted_base=[], assumptions=[],
    explanation="scoped to routing",
)
K("c11_shard_picker_valid", "C11", "report_hybrid", "report::hybrid", ["UniqueTag::shard_picker"], "complete-for-instance", "result < n, no panic; all tags, n in 1..=8", timeout=900)
K("c11_shard_picker_deterministic", "C11", "report_hybrid", "report::hybrid", ["UniqueTag::shard_picker"], "complete-for-instance", "equal tags => equal shard; all tags, n in {2,3,4,8}", timeout=1200)
K("c11_unique_tag_copy", "C11", "report_hybrid", "report::hybrid", ["UniqueTag::from_unique_bytes", "<UniqueTag as UniqueBytes>::unique_bytes"], "complete", "byte copy")

# ============================================================================ C10
PROPS["C10"] = dict(
    level="other",
    decided=["BOUNDED totality: report and info parsers return (never panic) on every byte string of the stated lengths, incl. empty and truncated records",
             "BOUNDED: the HPKE info string of a conversion report binds every metadata byte exactly (to_enc_bytes layout)",
             "event type byte accepted iff 0/1"],
    undecided=["AEAD integrity (any bit flip fails decryption): property of the external hpke / aes-gcm crates", "decrypt (GenericArray::from_slice aborts CBMC)",
               "LengthDelimitedStream framing", "lengths other than the stated boundary lengths (HybridConversionInfo: only len 0 and 1 close; longer inputs exhaust memory / time in CBMC post-processing of core::str UTF-8 validation)"],
    trusted_base=[], assumptions=[],
    explanation="bounded stand-in for the totality clause: Kani's implicit panic/bounds/unwrap obligations on the real parsers at the decision-boundary lengths; "
                "not a proof for all lengths; the authenticity clause is undecided",
)
K("c10_event_type_try_from", "C10", "report_hybrid", "report::hybrid", ["HybridEventType::try_from"], "complete", "Ok iff byte in {0,1}", min_covers=2)
K("c10_report_from_bytes_short", "C10", "report_hybrid", "report::hybrid", ["EncryptedHybridReport::from_bytes"], "bounded", "returns Err, never panics", bound="len <= 3", min_covers=2, timeout=900,
  native_test={"file": "c10_report.rs", "name": "verif_replay_report_from_bytes_empty"})
K("c10_report_from_bytes_boundary_imp", "C10", "report_hybrid", "report::hybrid", ["EncryptedHybridReport::from_bytes", "EncryptedHybridImpressionReport::from_bytes"], "bounded",
  "INFO_OFFSET-1 bytes rejected with Length, INFO_OFFSET accepted", bound="the two boundary lengths", timeout=900)
K("c10_report_from_bytes_boundary_conv", "C10", "report_hybrid", "report::hybrid", ["EncryptedHybridReport::from_bytes", "EncryptedHybridConversionReport::from_bytes"], "bounded",
  "same for the conversion variant", bound="the two boundary lengths", timeout=900)
K("c10_impression_info_total", "C10", "report_hybrid_info", "report::hybrid_info", ["HybridImpressionInfo::from_bytes"], "complete", "total on len 0..=2; Err iff empty", min_covers=2)
for n_ in (1, 2):
    K("c10_conversion_info_enc_bytes_layout_n%d" % n_, "C10", "report_hybrid_info", "report::hybrid_info", ["HybridConversionInfo::to_enc_bytes"], "bounded",
      "HPKE info = DOMAIN ++ HELPER_ORIGIN ++ site bytes unchanged ++ key_id ++ timestamp ++ epsilon ++ sensitivity (BE): every metadata bit is bound",
      bound="site domain of exactly %d ASCII byte(s)" % n_, min_covers=2, timeout=1500, tier="quick")
for n in (0, 1):
    K("c10_conversion_info_total_len%d" % n, "C10", "report_hybrid_info", "report::hybrid_info", ["HybridConversionInfo::from_bytes"], "bounded",
      "returns (never panics); Ok only for NUL-delimited records with a 25-byte tail", bound="len = %d, contents symbolic" % n, timeout=1500,
      tier=("quick" if n == 0 else "thorough"), native_test={"file": "c10_parsers.rs", "name": "verif_replay_parsers_total"})

# ============================================================================ C15
PROPS["C15"] = dict(
    level="other",
    decided=["BOUNDED (n <= 2 futures, window <= 2, complete runs; n = 3, window 3, two calls): results in input order, each exactly once; end only after all; window kept full while input remains; every in-flight future polled on each call; completed futures never polled again"],
    undecided=["larger windows / longer inputs (n = 3, w = 2 exhausts 60 GB of memory; n = 2, w = 1 exhausts the 26 GB cap)", "seq_try_join_all early stop", "multi-threaded variant (unsafe, async-scoped)", "validated_seq_join", "parallel_join (futures crate)"],
    trusted_base=[], assumptions=["kani::stub(periodic_memory_report) = no-op (reaches tracing => kani-compiler ICE)"],
    explanation="bounded symbolic exploration of every completion order of the real SequentialFutures::poll_next within the stated bounds; not a proof for all n, w",
)
for n_, w_, t_ in ((1, 1, "quick"), (2, 2, "quick")):
    K("c15_seq_join_n%d_w%d" % (n_, w_), "C15", "seq_join", "seq_join::local", ["SequentialFutures::poll_next", "SequentialFutures::new", "ActiveItem::{check_ready,take}"], "bounded",
      "in-order, exactly-once, window full, all polled", bound="n = %d, w = %d, polls <= %d" % (n_, w_, 3 if (n_, w_) == (2, 1) else n_ + 2), min_covers=2, timeout=1800, tier=t_, replay="none")

K("c15_seq_join_n3_w3_two_polls", "C15", "seq_join", "seq_join::local", ["SequentialFutures::poll_next"], "bounded",
  "a future that resolved out of order behind a blocked front does not stop the futures behind it from being polled",
  bound="n = 3, w = 3, 2 calls of poll_next", min_covers=2, timeout=900, replay="none")

# ============================================================================ C17
PROPS["C17"] = dict(
    level="other",
    decided=["BOUNDED (N = 2, len <= 5; N = 3, len <= 7): process_slice_by_chunks yields exactly ceil(len/N) chunks, chunk i = slice[N*i..], tail zero-padded and typed Partial(len % N), then None forever; no panic",
             "BOUNDED Chunk::unpack (N = 4, M = 2)"],
    undecided=["BufDeque::read_bytes / extend (VecDeque<Bytes>: solver does not finish)", "LengthDelimitedStream / RecordsStream poll_next", "BufferedBytesStream", "Length decode (GenericArray)"],
    trusted_base=[], assumptions=[],
    explanation="bounded stand-in, scoped to the fixed-width chunker",
)
K("c17_slice_chunks_n2", "C17", "chunks", "helpers::stream::chunks", ["process_slice_by_chunks", "SliceChunkProcessor::next_chunk", "ChunkFuture::poll"], "bounded",
  "chunking contract", bound="N = 2, len <= 5", min_covers=3, timeout=1200)
K("c17_slice_chunks_n3", "C17", "chunks", "helpers::stream::chunks", ["process_slice_by_chunks", "SliceChunkProcessor::next_chunk"], "bounded",
  "chunking contract", bound="N = 3, len <= 7", min_covers=3, timeout=1800, tier="thorough")
K("c17_chunk_unpack", "C17", "chunks", "helpers::stream::chunks", ["Chunk::unpack"], "bounded", "valid lengths sum, order kept, no panic on well-formed input", bound="N = 4, M = 2", min_covers=3, timeout=900)

# ============================================================================ C01
PROPS["C01"] = dict(
    level="other",
    decided=["pairing clause only: MatchEntry::{add_report,into_pair}: after k >= 1 reports into_pair() is Some([first, second]) iff k = 2",
             ],
    undecided=["group_report_pairs_ordered over the real BTreeMap (no verdict in 30 min even for 2-3 reports)", "everything else in the pipeline: shuffle, PRF, reshard, aggregation circuits, noise, finalize; the end-to-end equality with the clear-text reference is NOT established by this machinery"],
    trusted_base=[], assumptions=[],
    explanation="only the pairs-only grouping mechanism is under contract; the property's end-to-end statement is an interactive three-party protocol outside any function-level contract",
)
K("c01_match_entry", "C01", "agg", "protocol::hybrid::agg", ["MatchEntry::add_report", "MatchEntry::into_pair"], "complete", "Some([first, second]) iff exactly two reports", min_covers=2, timeout=900)
