import re,sys
log=open(sys.argv[1]).read()
cur={}
for m in re.finditer(r"Thread (\d+): (Checking harness (\S+)\.\.\.|\s*\n(.*?)(?=Thread \d+:|Manual Harness Summary|\Z))", log, re.S):
    t=m.group(1)
    if m.group(3): cur[t]=m.group(3)
    else:
        blk=m.group(4)
        st=re.search(r"VERIFICATION:- (\w+)",blk); tm=re.search(r"Verification Time: ([\d.]+)",blk)
        f=re.search(r"Failed Checks: ([^\n]*)",blk)
        print("%-75s %-10s %s %s"%(cur.get(t), st.group(1) if st else '?', tm.group(1) if tm else ('TIMEOUT' if 'timed out' in blk else '?'), f.group(1)[:80] if f else ''))
