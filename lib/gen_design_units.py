#!/usr/bin/env python3
"""Prints the per-property unit tables of DESIGN.md section 5 from lib/units.py (+ timings from evidence files)."""
import json
import os
import sys

sys.path.insert(0, os.path.dirname(os.path.abspath(__file__)))
from units import PROPS, UNITS  # noqa: E402

VERIF = os.path.dirname(os.path.dirname(os.path.abspath(__file__)))


def main():
    out = []
    for pid in sorted(PROPS):
        tm = {}
        ev = os.path.join(VERIF, "evidence", pid + ".json")
        if os.path.exists(ev):
            for u in json.load(open(ev))["coverage"].get("units", []):
                if u.get("status") == "discharged":
                    tm[u["unit"]] = (u.get("obligations", 0), u.get("solver_time_s", 0))
        out.append("#### %s units\n" % pid)
        out.append("| unit | engine | tier | label | functions under contract | clause | obligations / solver s |")
        out.append("|---|---|---|---|---|---|---|")
        for u in UNITS:
            if u["prop"] != pid:
                continue
            lab = u["label"] + (" (%s)" % u["bound"] if u.get("bound") else "")
            t = tm.get(u["id"])
            out.append("| `%s` | %s | %s | %s | %s | %s | %s |" % (
                u["id"], u["engine"], u["tier"], lab, "; ".join("`%s`" % f for f in u["fns"]), u["clause"].replace("|", "\\|"),
                ("%d / %.1f" % t) if t else "—"))
        out.append("")
    print("\n".join(out))


if __name__ == "__main__":
    main()
