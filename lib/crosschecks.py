"""Runner-level cross-checks of *trusted mathematical facts* about constants read from the current source.
They are not verifier obligations and are never counted as discharged; a failing cross-check is reported as a
violation with the offending literal (replay = the literal itself), because the contracts are stated relative
to these facts (e.g. `prime(P)` in the Verus proof of `invert`)."""
import os
import re

REPO = os.environ.get("IPA_REPO", "/repo")


def is_prime(n):
    """deterministic Miller-Rabin, valid for n < 3.3e24 (first 13 prime bases)"""
    if n < 2:
        return False
    small = [2, 3, 5, 7, 11, 13, 17, 19, 23, 29, 31, 37, 41]
    for p in small:
        if n % p == 0:
            return n == p
    d, s = n - 1, 0
    while d % 2 == 0:
        d //= 2
        s += 1
    for a in small:
        x = pow(a, d, n)
        if x in (1, n - 1):
            continue
        for _ in range(s - 1):
            x = x * x % n
            if x == n - 1:
                break
        else:
            return False
    return True


# ---- GF(2)[x] arithmetic on ints (bit i = coefficient of x^i)
def pdeg(a):
    return a.bit_length() - 1


def pmod(a, m):
    dm = pdeg(m)
    while a and pdeg(a) >= dm:
        a ^= m << (pdeg(a) - dm)
    return a


def pmulmod(a, b, m):
    r = 0
    while b:
        if b & 1:
            r ^= a
        b >>= 1
        a = pmod(a << 1, m)
    return pmod(r, m)


def pgcd(a, b):
    while b:
        a, b = b, pmod(a, b)
    return a


def irreducible_gf2(f):
    """Rabin's test"""
    n = pdeg(f)
    if n < 1:
        return False
    if n == 1:
        return True
    x = 2

    def frob(k):  # x^(2^k) mod f
        y = x
        for _ in range(k):
            y = pmulmod(y, y, f)
        return y
    if frob(n) != pmod(x, f):
        return False
    q, m, primes = 2, n, []
    while q * q <= m:
        if m % q == 0:
            primes.append(q)
            while m % q == 0:
                m //= q
        q += 1
    if m > 1:
        primes.append(m)
    for q in primes:
        if pgcd(frob(n // q) ^ x, f) != 1:
            return False
    return True


def pdivmod(a, m):
    q, dm = 0, pdeg(m)
    while a and pdeg(a) >= dm:
        sh = pdeg(a) - dm
        q |= 1 << sh
        a ^= m << sh
    return q, a


def small_factor(f):
    for g in range(2, 1 << 14):
        if pdeg(g) >= 1 and pdivmod(f, g)[1] == 0 and g != f:
            return g
    return None


def zero_divisor_test(name, f):
    """native replay text: two non-zero elements of the real type whose product under the real `Mul` is zero"""
    g = small_factor(f)
    if g is None:
        return None
    h, r = pdivmod(f, g)
    assert r == 0
    tn = "verif_replay_zero_divisor_%s" % name.lower()
    text = """#[test]
fn %(tn)s() {
    use crate::{ff::{%(name)s, U128Conversions}, secret_sharing::SharedValue};
    // POLYNOMIAL = %(f)#x = %(g)#x * %(h)#x over GF(2): both factors are non-zero elements of %(name)s
    let a = %(name)s::truncate_from(%(g)#x_u128);
    let b = %(name)s::truncate_from(%(h)#x_u128);
    assert!(a != %(name)s::ZERO && b != %(name)s::ZERO);
    assert!(a * b != %(name)s::ZERO, "zero divisors in %(name)s: %(g)#x * %(h)#x == 0");
}
""" % dict(tn=tn, name=name, f=f, g=g, h=h)
    return {"module": "galois_field", "test_name": tn, "test_text": text, "inputs": {"a": hex(g), "b": hex(h)}}


def c08_math_facts():
    n = 0
    pf = open(os.path.join(REPO, "ipa-core/src/ff/prime_field.rs")).read()
    inv = re.findall(r"field_impl!\s*\{\s*(\w+)\s*,\s*(\w+)\s*,\s*(\w+)\s*,\s*(\d+)\s*,\s*([\d_]+)\s*\}", pf)
    if len(inv) != 3:
        return [(None, "expected 3 field_impl! invocations, found %d (lost anchor)" % len(inv), "anchor", None)], 0
    out = []
    for name, store, op, bits, prime in inv:
        p = int(prime.replace("_", ""))
        n += 1
        if not is_prime(p):
            out.append((False, "%s::PRIME = %d is not prime" % (name, p), name + "::PRIME", None))
        elif p.bit_length() > int(bits):
            out.append((False, "%s::PRIME = %d does not fit in BITS = %s" % (name, p, bits), name + "::PRIME", None))
        else:
            out.append((True, "%s::PRIME = %d is prime" % (name, p), name + "::PRIME", None))
    gf = open(os.path.join(REPO, "ipa-core/src/ff/galois_field.rs")).read()
    polys = re.findall(r"bit_array_impl!\(\s*\w+,\s*(\w+),\s*\w+,\s*(\d+),\s*bitarr!\([^)]*\),\s*(?://[^\n]*\n\s*)*(0b[01_]+)_u128,", gf)
    if len(polys) != 7:
        out.append((None, "expected 7 bit_array_impl! invocations, found %d (lost anchor)" % len(polys), "anchor", None))
        return out, n
    for name, bits, lit in polys:
        f = int(lit.replace("_", ""), 2)
        n += 1
        if pdeg(f) != int(bits):
            out.append((False, "%s::POLYNOMIAL %s has degree %d, expected BITS = %s" % (name, lit, pdeg(f), bits), name + "::POLYNOMIAL", None))
        elif not irreducible_gf2(f):
            out.append((False, "%s::POLYNOMIAL %s is reducible over GF(2): %s has zero divisors, it is not a field" % (name, lit, name),
                        name + "::POLYNOMIAL", zero_divisor_test(name, f)))
        else:
            out.append((True, "%s::POLYNOMIAL degree %s, irreducible over GF(2)" % (name, bits), name + "::POLYNOMIAL", None))
    return out, n
