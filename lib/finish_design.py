#!/usr/bin/env python3
"""Fills the generated parts of DESIGN.md: the per-property unit tables (from lib/units.py + evidence timings) between
the markers `<!-- UNIT_TABLES -->` … `<!-- /UNIT_TABLES -->` and the seeded-change table (from seeded/*/meta.json and
seeded/results.json) between `<!-- SEED_TABLE -->` … `<!-- /SEED_TABLE -->`."""
import glob
import io
import json
import os
import re
import sys
from contextlib import redirect_stdout

sys.path.insert(0, os.path.dirname(os.path.abspath(__file__)))
import gen_design_units  # noqa: E402

VERIF = os.path.dirname(os.path.dirname(os.path.abspath(__file__)))


def seed_table():
    res = {}
    p = os.path.join(VERIF, "seeded", "results.json")
    if os.path.exists(p):
        res = json.load(open(p))
    rows = ["| seed | breaks | change (file) | needs to manifest | checked with | verdict of the machinery |", "|---|---|---|---|---|---|"]
    for d in sorted(glob.glob(os.path.join(VERIF, "seeded", "*-*"))):
        sid = os.path.basename(d)
        m = json.load(open(os.path.join(d, "meta.json")))
        r = res.get(sid, {})
        what = m.get("what", "").split(". ")[0][:230]
        need = m.get("needs_to_manifest", "").split(". ")[0][:200]
        if r.get("caught"):
            fo = "; ".join(x.replace("failed obligation: ", "")[:170] for x in r.get("failed_obligations", [])[:1])
            verdict = "**caught** (exit 1): %s; %s" % (fo, "; ".join(r.get("native", [])[:1]))
        elif r and r.get("exit") == 2:
            verdict = ("not caught (exit 2, undecided): the unit covering the changed function could not finish on the changed code "
                       "(tool limit: CBMC out of memory) -- no verdict, no alarm")
        elif r:
            verdict = "not caught (exit %s): the change is in code listed as undecided for this property" % r.get("exit")
        else:
            verdict = "not run yet"
        units = r.get("units", "")
        if isinstance(units, list):
            units = ", ".join("`%s`" % u for u in units)
        rows.append("| %s | %s | %s (`%s`) | %s | %s %s | %s |" % (
            sid, m.get("property"), what.replace("|", "\\|"), ", ".join(m.get("files_changed", []))[:120], need.replace("|", "\\|"),
            r.get("property_checked", ""), units, verdict.replace("|", "\\|")))
    return "\n".join(rows)


def main():
    p = os.path.join(VERIF, "DESIGN.md")
    s = open(p).read()
    buf = io.StringIO()
    with redirect_stdout(buf):
        gen_design_units.main()
    ut = "<!-- UNIT_TABLES -->\n" + buf.getvalue() + "\n<!-- /UNIT_TABLES -->"
    st = "<!-- SEED_TABLE -->\n" + seed_table() + "\n<!-- /SEED_TABLE -->"
    if "<!-- UNIT_TABLES -->" in s:
        s = re.sub(r"<!-- UNIT_TABLES -->.*?<!-- /UNIT_TABLES -->", lambda _: ut, s, flags=re.S)
    else:
        s = s.replace("UNIT_TABLES\n", ut + "\n", 1)
    if "<!-- SEED_TABLE -->" in s:
        s = re.sub(r"<!-- SEED_TABLE -->.*?<!-- /SEED_TABLE -->", lambda _: st, s, flags=re.S)
    else:
        s = s.replace("SEED_TABLE\n", st + "\n", 1)
    open(p, "w").write(s)
    print("DESIGN.md: %d lines" % len(s.splitlines()))


if __name__ == "__main__":
    main()
