"""Engine K: run Kani on the real crate (in place, /repo working tree) and classify the result.

Nothing here decides a property by itself: the verdict for each harness comes from
Kani's `--export-json` report (per-check status, category, description, location).
"""
import json
import os
import re
import subprocess
import time

VERIF = os.path.dirname(os.path.dirname(os.path.abspath(__file__)))
REPO = os.environ.get("IPA_REPO", "/repo")
CRATE = os.path.join(REPO, "ipa-core")
BUILD = os.path.join(VERIF, ".build")
TARGET = os.path.join(BUILD, "kani")
FEATURES = "cli test-fixture"

# categories / descriptions of failed checks that are tool limits, never violations
TOOL_LIMIT_CATEGORIES = {"unwind", "unsupported_construct", "unreachable_unsupported"}
TOOL_LIMIT_DESCR = re.compile(
    r"unwinding assertion|is not currently supported by Kani|unsupported|recursion unwinding|"
    r"call to foreign|Function with missing definition|unreachable code reached due to unsupported"
)


def base_cmd(extra_z=()):
    cmd = [
        "cargo", "kani", "--lib", "--features", FEATURES, "--target-dir", TARGET,
        "-Z", "function-contracts", "-Z", "stubbing", "-Z", "unstable-options",
        # Kani by default re-asserts the contract of every contracted callee at every call in every harness
        # (measured: a 128-bit `%` per field operation, minutes per harness). Contracts are proved by their own
        # proof_for_contract units and used through stub_verified; elsewhere the callee's body is executed.
        "--no-assert-contracts",
    ]
    for z in extra_z:
        cmd += ["-Z", z]
    return cmd


def env():
    e = dict(os.environ)
    e["CARGO_NET_OFFLINE"] = "true"
    e["IPA_VERIF_DIR"] = VERIF
    # never let a caller's RUSTFLAGS change the fingerprint of the dependency build
    e.pop("RUSTFLAGS", None)
    return e


def _limit_memory():
    """Address-space cap per process (inherited by every cbmc): a runaway SAT instance must abort (=> exit 2),
    not drive the machine into the OOM killer, which would take other harnesses down with it."""
    import resource
    cap = int(os.environ.get("VERIF_MEM_GB", "26")) << 30
    resource.setrlimit(resource.RLIMIT_AS, (cap, cap))


def run_kani(harnesses, log_path, json_path, jobs=8, harness_timeout=900, wall_timeout=None, solver=None):
    """One cargo-kani invocation over `harnesses` (fully qualified names). Returns
    (returncode, seconds, parsed_json_or_None, log_text)."""
    os.makedirs(os.path.dirname(log_path), exist_ok=True)
    if os.path.exists(json_path):
        os.remove(json_path)
    cmd = base_cmd() + [
        "--harness-timeout", str(int(harness_timeout)), "--export-json", json_path,
        "--output-format=terse", "-j", str(jobs), "--exact",
    ]
    if solver:
        cmd += ["--solver", solver]
    for h in harnesses:
        cmd += ["--harness", h]
    t0 = time.time()
    with open(log_path, "w") as lf:
        lf.write("$ (cd %s && IPA_VERIF_DIR=%s %s)\n" % (CRATE, VERIF, " ".join(cmd)))
        lf.flush()
        try:
            p = subprocess.run(cmd, cwd=CRATE, env=env(), stdout=lf, stderr=subprocess.STDOUT,
                               timeout=wall_timeout, preexec_fn=_limit_memory)
            rc = p.returncode
        except subprocess.TimeoutExpired:
            rc = -9
            lf.write("\n[runner] wall timeout after %ss\n" % wall_timeout)
    dt = time.time() - t0
    data = None
    if os.path.exists(json_path):
        try:
            data = json.load(open(json_path))
        except Exception:  # truncated file == no result
            data = None
    return rc, dt, data, open(log_path, errors="replace").read()


def compile_errors(log):
    """Extract rustc / kani-compiler errors from a log (lost anchor / ICE)."""
    out = []
    lines = log.splitlines()
    for i, l in enumerate(lines):
        if l.startswith("error") or "internal compiler error" in l or "panicked at" in l and "kani" in l:
            out.append("\n".join(lines[i:i + 6]))
        if len(out) >= 5:
            break
    return out


class HarnessResult:
    def __init__(self, name):
        self.name = name
        self.present = False
        self.status = "missing"       # success | failure | timeout | crash | missing
        self.duration_s = 0.0
        self.checks = []              # raw check dicts
        self.n_checks = 0             # non-cover checks
        self.n_passed = 0
        self.failed = []              # property failures
        self.tool_failed = []         # tool-limit failures (unwinding etc.)
        self.undetermined = []
        self.covers = []              # (description, status)
        self.stats = {}
        self.solver = "cadical"

    @property
    def covers_ok(self):
        return all(st == "Satisfied" for _, st in self.covers)


def parse(data, harnesses, log):
    res = {h: HarnessResult(h) for h in harnesses}
    if data is None:
        return res
    for r in data.get("verification_results", {}).get("results", []):
        h = r.get("harness_id")
        if h not in res:
            continue
        hr = res[h]
        hr.present = True
        hr.duration_s = r.get("duration_ms", 0) / 1000.0
        hr.checks = r.get("checks", [])
        for c in hr.checks:
            cat = c.get("category", "")
            st = c.get("status", "")
            desc = c.get("description", "")
            if cat == "cover":
                hr.covers.append((desc, st))
                continue
            hr.n_checks += 1
            if st == "Success":
                hr.n_passed += 1
            elif st == "Failure":
                if cat in TOOL_LIMIT_CATEGORIES or TOOL_LIMIT_DESCR.search(desc):
                    hr.tool_failed.append(c)
                else:
                    hr.failed.append(c)
            elif st == "Unreachable":
                hr.n_passed += 1      # vacuously true check (dead code); counted by Kani as passed
            else:
                hr.undetermined.append(c)
        status = r.get("status")
        if status == "Success":
            hr.status = "success"
        elif status == "Failure":
            hr.status = "failure"
        else:
            hr.status = str(status).lower()
    for c in data.get("cbmc", []):
        h = c.get("harness_id")
        if h in res:
            res[h].stats = c.get("cbmc_stats", {})
            res[h].solver = c.get("configuration", {}).get("solver", "cadical")
    for e in data.get("error_details", []):
        h = e.get("harness_id")
        if h in res and e.get("has_errors"):
            res[h].error_type = e.get("error_type")
            res[h].exit_status = e.get("exit_status")
            if res[h].status == "failure" and not res[h].failed and not res[h].tool_failed:
                # failure without a failed check: timeout / CBMC crash / out of memory
                et = (e.get("exit_status") or "") + " " + (e.get("error_type") or "")
                res[h].status = "timeout" if "imeout" in et else "crash"
    # terse log cross-check for timeouts / crashes
    for h, hr in res.items():
        if re.search(r"timed out.*%s|%s.*timed out" % (re.escape(h), re.escape(h)), log):
            hr.status = "timeout"
    return res


def playback_print(harness, log_path, harness_timeout=900):
    """Re-run one failing harness with concrete playback in print mode; returns the generated
    unit-test text (or None) and the raw log."""
    cmd = base_cmd(extra_z=("concrete-playback",)) + [
        "--harness-timeout", str(int(harness_timeout)), "--concrete-playback=print",
        "--exact", "--harness", harness,
    ]
    with open(log_path, "w") as lf:
        lf.write("$ " + " ".join(cmd) + "\n")
        lf.flush()
        subprocess.run(cmd, cwd=CRATE, env=env(), stdout=lf, stderr=subprocess.STDOUT)
    log = open(log_path, errors="replace").read()
    tests = re.findall(r"```\s*\n(.*?)```", log, re.S)
    tests = [t for t in tests if "#[test]" in t]
    if not tests:
        return None, log
    # Kani prints one test per satisfied cover and one per failed check (and omits the latter when a cover test has
    # the same concrete values): failed-check tests first, then the cover tests; all of them are replayed natively
    noncover = [t for t in tests if not re.search(r"Check for `cover`", t)]
    cover = [t for t in tests if re.search(r"Check for `cover`", t)]
    return "\n".join(noncover + cover), log
