#!/usr/bin/env python3
"""Runs the checks against the confirmed seeded changes: for each /verif/seeded/<id>/ applies patch.diff to /repo,
runs the listed check (units chosen in SEEDS below, or the whole quick tier), records the verdict, and restores /repo
(`git checkout -- .`) straight afterwards. Writes /verif/seeded/results.json. Usage: seedrun.py [id ...]"""
import json
import os
import re
import subprocess
import sys
import time

VERIF = os.path.dirname(os.path.dirname(os.path.abspath(__file__)))
REPO = "/repo"

# seed id -> (property to check, units or None for the full thorough tier of that property)
SEEDS = {
    "C08-1": ("C08", ["c08_acc_array2_step", "c08_acc_array2_bound", "c08_acc_array2_take"]),
    "C12-1": ("C12", ["c12_rejection_sampler_skeleton"]),
    "C13-1": ("C14", ["c14_waiting_shard_wake_contract", "c14_waiting_shard_guard_lemma"]),
    "C14-1": ("C14", ["c14_waiting_shard_wake_contract", "c14_waiting_shard_guard_lemma"]),
    "C18-1": ("C18", None),
    "C09-1": ("C09", None),
    "C06-1": ("C06", None),
    "C11-1": ("C11", None),
    "C03-1": ("C03", None),
    "C08-2": ("C08", ["c08_fp61_const_truncate_contract"]),
    "C13-2": ("C13", ["c13_send_config", "c13_send_config_grid_rec3"]),
    "C14-2": ("C14", ["c14_circular_cursors", "c14_cursor_contracts_k", "c14_take_contract"]),
    "C15-1": ("C15", None),
    "C10-1": ("C10", ["c10_conversion_info_enc_bytes_layout_n1"]),
    "C09-2": ("C09", ["c09_boolean_deserialize"]),
    "C12-2": ("C12", ["c12_shifted_laplace_new_modulus"]),
    "C18-2": ("C18", ["c18_transition_table"]),
    "C11-2": ("C11", None),
    "C03-2": ("C03", None),
    "C08-3": ("C08", ["c08_math_facts", "c08_gf32bit_fits_identity", "c08_gf32bit_commut"]),
    "C14-3": ("C14", ["c14_take_contract", "c14_fifo_against_reference", "c14_write_contract"]),
    "C09-3": ("C09", None),
    "C06-2": ("C06", ["c06_prss_index128_injective", "c06_prss_index128_try_from", "c06_prss_offset_chunks_distinct"]),
    "C17-1": ("C17", None),
    "C01-1": ("C01", None),
}


def sh(cmd, **kw):
    return subprocess.run(cmd, stdout=subprocess.PIPE, stderr=subprocess.STDOUT, text=True, **kw)


def main():
    ids = sys.argv[1:] or sorted(SEEDS)
    out_path = os.path.join(VERIF, "seeded", "results.json")
    results = json.load(open(out_path)) if os.path.exists(out_path) else {}
    for sid in ids:
        prop, units = SEEDS[sid]
        d = os.path.join(VERIF, "seeded", sid)
        st = sh(["git", "-C", REPO, "status", "--porcelain"]).stdout.strip()
        if st:
            print("refusing: /repo is dirty:\n" + st)
            return 2
        a = sh(["git", "-C", REPO, "apply", os.path.join(d, "patch.diff")])
        if a.returncode != 0:
            results[sid] = {"applied": False, "note": a.stdout[-400:]}
            continue
        t0 = time.time()
        # the evidence file describes the *unchanged* tree: save it and put it back after the run on the changed tree
        ev = os.path.join(VERIF, "evidence", prop + ".json")
        ev_saved = open(ev).read() if os.path.exists(ev) else None
        try:
            cmd = [os.path.join(VERIF, "check"), prop, "--tier", "thorough"]
            if units:
                cmd += ["--units", ",".join(units)]
            r = sh(cmd, cwd=VERIF)
        finally:
            sh(["git", "-C", REPO, "checkout", "--", "."])
            if ev_saved is not None:
                open(ev, "w").write(ev_saved)
        lines = r.stdout.splitlines()
        viol = [l for l in lines if l.startswith("VIOLATION")]
        failed = [l.strip() for l in lines if l.strip().startswith("failed obligation:")]
        native = [l.strip() for l in lines if l.strip().startswith("native replay:")]
        rp = None
        if viol:
            m = re.search(r"replay=(\S+)", viol[0])
            if m and os.path.exists(m.group(1)):
                # keep a copy of the replay next to the seed (replay/ is git-ignored)
                rp = os.path.join(d, "replay_" + os.path.basename(m.group(1)))
                open(rp, "w").write(open(m.group(1)).read())
        results[sid] = {
            "applied": True, "property_checked": prop, "units": units or "thorough tier", "exit": r.returncode,
            "caught": r.returncode == 1, "violation_lines": viol, "failed_obligations": failed[:4], "native": native[:4],
            "replay_copy": rp, "wall_s": round(time.time() - t0, 1),
            "unit_lines": [l[:220] for l in lines if l.startswith("[" + prop + "]")],
        }
        print(sid, "exit", r.returncode, "caught" if r.returncode == 1 else "not caught", viol[:1])
        json.dump(results, open(out_path, "w"), indent=1)
    return 0


if __name__ == "__main__":
    sys.exit(main())
