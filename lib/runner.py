"""Runner: selects the units of a property, drives engine K (Kani, in place) and engine V
(Verus, woven), classifies, replays counterexamples, writes evidence and prints the verdict."""
import glob
import hashlib
import json
import os
import re
import shutil
import subprocess
import sys
import time

import kani_engine as K
import verus_engine as V
import kaniw_engine as KW
from units import UNITS, PROPS

VERIF = K.VERIF
REPO = K.REPO
BUILD = K.BUILD
EVID = os.path.join(VERIF, "evidence")
REPLAY = os.path.join(VERIF, "replay")
KNOWN = os.path.join(VERIF, "KNOWN_FINDINGS.txt")


# ----------------------------------------------------------------------------- helpers
def sh(cmd, **kw):
    return subprocess.run(cmd, shell=isinstance(cmd, str), stdout=subprocess.PIPE, stderr=subprocess.STDOUT,
                          text=True, **kw)


def repo_head():
    r = sh(["git", "-C", REPO, "rev-parse", "--short", "HEAD"])
    d = sh(["git", "-C", REPO, "status", "--porcelain"])
    return r.stdout.strip() + ("+dirty" if d.stdout.strip() else "")


def ensure_playback_stubs():
    d = os.path.join(BUILD, "playback")
    os.makedirs(d, exist_ok=True)
    for f in glob.glob(os.path.join(VERIF, "kani", "*.rs")):
        p = os.path.join(d, os.path.basename(f))
        if not os.path.exists(p):
            open(p, "w").close()
    return d


def clear_playback():
    d = ensure_playback_stubs()
    for f in glob.glob(os.path.join(d, "*.rs")):
        open(f, "w").close()


class UnitResult:
    def __init__(self, unit):
        self.unit = unit
        self.status = "undecided"     # discharged | violation | undecided
        self.reason = ""
        self.obligations = 0
        self.discharged = 0
        self.covers = []
        self.time_s = 0.0
        self.backend = ""
        self.failed = []              # list of {description, function, location, category}
        self.samples = []
        self.replay_path = None
        self.counterexample = None
        self.native = None            # reproduced | not-reproduced | unavailable
        self.detail = {}


def known_findings():
    out = []
    if os.path.exists(KNOWN):
        for line in open(KNOWN):
            line = line.strip()
            if not line.startswith("finding:"):
                continue
            m = re.match(r"finding:\s+property=(\S+)\s+unit=(\S+)\s+match=(.*?)\s+::\s+(.*)$", line)
            if m:
                out.append({"prop": m.group(1), "unit": m.group(2), "match": m.group(3), "text": m.group(4)})
    return out


def scan_assumptions(files):
    pat = re.compile(r"kani::assume|kani::stub\b|stub_verified|unimplemented!|\bassume\(|\badmit\(|external_body|"
                     r"assume_specification|#\[verifier::external|kani::any_where")
    out = []
    for f in files:
        if not os.path.exists(f):
            continue
        for i, l in enumerate(open(f, errors="replace"), 1):
            if pat.search(l) and not l.strip().startswith("//"):
                out.append("%s:%d: %s" % (os.path.relpath(f, VERIF), i, l.strip()[:160]))
    return out


# ----------------------------------------------------------------------------- engine K
def fmt_check(c):
    loc = c.get("location", {}) or {}
    f = loc.get("file") or ""
    return {
        "description": c.get("description", ""),
        "function": c.get("function", ""),
        "category": c.get("category", ""),
        "location": "%s:%s" % (f, loc.get("line", "?")),
    }


def run_k(prop, tier, units, jobs, results, native_replay):
    ensure_playback_stubs()
    clear_playback()
    hs = [u["harness"] for u in units]
    logd = os.path.join(BUILD, "logs")
    log = os.path.join(logd, "%s.%s.kani.log" % (prop, tier))
    js = os.path.join(logd, "%s.%s.kani.json" % (prop, tier))
    tmo = max(u.get("timeout", 600) for u in units)
    rc, dt, data, text = K.run_kani(hs, log, js, jobs=jobs, harness_timeout=tmo,
                                    wall_timeout=tmo * max(1, (len(hs) + jobs - 1) // jobs) + 1500)
    parsed = K.parse(data, hs, text)
    missing = [h for h in hs if not parsed[h].present]
    errs = K.compile_errors(text) if missing else []
    if missing and len(hs) > 1 and not _is_compile_error(text):
        # one ICE / CBMC abort can take a whole invocation down: re-run the missing ones alone
        for h in missing:
            l2 = os.path.join(logd, "%s.%s.%s.log" % (prop, tier, h.split("::")[-1]))
            j2 = l2[:-4] + ".json"
            rc2, dt2, d2, t2 = K.run_kani([h], l2, j2, jobs=1, harness_timeout=tmo, wall_timeout=tmo + 1500)
            p2 = K.parse(d2, [h], t2)
            parsed[h] = p2[h]
            if not p2[h].present:
                parsed[h].log_excerpt = "\n".join(K.compile_errors(t2)) or t2[-1500:]
    for u in units:
        hr = parsed[u["harness"]]
        ur = UnitResult(u)
        results[u["id"]] = ur
        ur.backend = "kani-0.68/cbmc-6.11/%s" % (hr.solver or "cadical")
        ur.time_s = hr.duration_s
        ur.detail["cbmc_stats"] = hr.stats
        ur.covers = hr.covers
        if not hr.present:
            ur.status = "undecided"
            why = getattr(hr, "log_excerpt", None) or ("\n".join(errs) if errs else text[-1500:])
            ur.reason = "no verdict from Kani (compile error / lost anchor / ICE / abort): " + why[:1200]
            continue
        ur.obligations = hr.n_checks
        ur.discharged = hr.n_passed
        ur.samples = [fmt_check(c) for c in hr.checks if c.get("category") != "cover"
                      and c.get("status") == "Success" and "verif/kani" in (c.get("location", {}) or {}).get("file", "")][:3]
        ur.samples += [fmt_check(c) for c in hr.checks if c.get("category") != "cover"
                       and c.get("status") == "Success" and "/ipa-core/src/" in (c.get("location", {}) or {}).get("file", "")][:3]
        if hr.failed:
            ur.status = "violation"
            ur.failed = [fmt_check(c) for c in hr.failed]
            ur.reason = "failed obligation(s): " + "; ".join(
                "%s [%s @ %s]" % (c["description"], c["function"], c["location"]) for c in ur.failed[:4])
            continue
        if hr.status in ("timeout", "crash") or hr.tool_failed or hr.undetermined or hr.status != "success":
            ur.status = "undecided"
            if hr.tool_failed:
                ur.reason = "tool limit: " + "; ".join(c.get("description", "") for c in hr.tool_failed[:3])
            else:
                ur.reason = "tool limit: harness status %s (timeout %ss / CBMC abort / out of memory)" % (hr.status, tmo)
            continue
        if hr.n_checks == 0:
            ur.status = "undecided"
            ur.reason = "vacuous: zero obligations generated"
            continue
        bad = [d for d, st in hr.covers if st != "Satisfied"]
        if bad or len(hr.covers) < u.get("min_covers", 1):
            ur.status = "undecided"
            ur.reason = "vacuous: cover point(s) not satisfied or missing: %s (have %d, need >= %d)" % (
                bad[:3], len(hr.covers), u.get("min_covers", 1))
            continue
        ur.status = "discharged"
    # counterexamples
    for u in units:
        ur = results[u["id"]]
        if ur.status == "violation":
            make_replay(prop, u, ur, native_replay)


def _is_compile_error(text):
    return bool(re.search(r"^error(\[E\d+\])?:", text, re.M)) and "Checking harness" not in text


def make_replay(prop, u, ur, native_replay):
    d = os.path.join(REPLAY, prop)
    os.makedirs(d, exist_ok=True)
    path = os.path.join(d, u["id"] + ".replay.json")
    rec = {
        "property": prop, "unit": u["id"], "engine": "K", "harness": u["harness"],
        "functions_under_contract": u["fns"], "failed_obligations": ur.failed,
        "repo_head": repo_head(),
    }
    test_text, plog = K.playback_print(u["harness"], os.path.join(BUILD, "logs", "%s.%s.playback.log" % (prop, u["id"])),
                                       harness_timeout=u.get("timeout", 600))
    rec["concrete_playback_test"] = test_text
    ur.counterexample = test_text
    if test_text:
        rec["concrete_values"] = re.findall(r"^\s*// (.*)$", test_text, re.M)
    if not test_text and u.get("native_test"):
        pass  # handled below: no concrete playback test was produced, fall back to the unit's hand-written native test
    if test_text and native_replay and u.get("replay", "playback") == "playback":
        ok, out = native_playback(u, test_text)
        rec["native_outcome"] = ok
        rec["native_output"] = out[-3000:]
        ur.native = ok
    elif native_replay and u.get("native_test"):
        # units whose harness uses kani::stub cannot be played back byte for byte (stubs are not applied natively):
        # a hand-written native test for the same obligation is run against the real code instead
        nt = u["native_test"]
        text = open(os.path.join(VERIF, "kani", "native", nt["file"])).read()
        ok, out = native_test(u["file"], nt["name"], text)
        rec["native_test"] = text
        rec["native_outcome"] = ok
        rec["native_output"] = out[-3000:]
        ur.native = ok
    else:
        rec["native_outcome"] = "unavailable"
        ur.native = "unavailable"
        if not test_text:
            rec["verifier_output"] = plog[-4000:]
    json.dump(rec, open(path, "w"), indent=1)
    ur.replay_path = path


def module_file_of(harness_file_hint):
    return harness_file_hint


def native_playback(u, test_text):
    """Execute the Kani-generated unit test natively against the real crate (`cargo kani playback`)."""
    d = ensure_playback_stubs()
    clear_playback()
    mod = u["file"]
    open(os.path.join(d, mod + ".rs"), "w").write(test_text + "\n")
    names = re.findall(r"fn (kani_concrete_playback_\w+)", test_text)
    # all generated tests of this harness share the prefix kani_concrete_playback_<harness fn>_
    name = os.path.commonprefix(names) if len(names) > 1 else names[0]
    env = K.env()
    env["CARGO_TARGET_DIR"] = os.path.join(BUILD, "kani-playback")
    cmd = ["cargo", "kani", "playback", "-Z", "concrete-playback", "-Z", "function-contracts", "-Z", "stubbing",
           "--lib", "--features", K.FEATURES, "--", name, "--exact-match-disabled-placeholder"]
    cmd = cmd[:-1]
    try:
        p = subprocess.run(cmd, cwd=K.CRATE, env=env, stdout=subprocess.PIPE, stderr=subprocess.STDOUT, text=True,
                           timeout=3600)
        out = p.stdout
    except subprocess.TimeoutExpired:
        out = "[runner] native playback timed out"
    finally:
        clear_playback()
    if re.search(r"test .*%s\w* \.\.\. FAILED" % name, out):
        return "reproduced", out
    if re.search(r"test .*%s\w* \.\.\. ok" % name, out):
        return "not-reproduced", out
    return "unavailable", out


# ----------------------------------------------------------------------------- engine V
def run_v(prop, u, results):
    ur = UnitResult(u)
    results[u["id"]] = ur
    r = V.run_unit(u, os.path.join(BUILD, "verus"))
    ur.backend = "verus-0.2026.09.13/z3"
    ur.time_s = r.get("time_s", 0.0)
    ur.detail["weave"] = r.get("weave_report", {})
    ur.detail["woven_file"] = r.get("file")
    ur.obligations = r.get("total", 0)
    ur.discharged = r.get("verified", 0)
    ur.samples = r.get("samples", [])
    if r["status"] == "weave-failed":
        ur.status = "undecided"
        ur.reason = "lost anchor (weave): " + r.get("message", "")
    elif r["status"] == "rejected":
        ur.status = "undecided"
        ur.reason = "Verus rejected the woven text (type error / unsupported construct): " + r.get("message", "")[:800]
    elif r["status"] == "verified":
        if ur.obligations == 0:
            ur.status = "undecided"
            ur.reason = "vacuous: zero obligations"
        else:
            ur.status = "discharged"
    elif r["status"] == "failed":
        ur.status = "violation"
        ur.failed = r.get("failed", [])
        ur.reason = "Verus obligation(s) failed: " + "; ".join(f["description"] for f in ur.failed[:4])
        d = os.path.join(REPLAY, prop)
        os.makedirs(d, exist_ok=True)
        path = os.path.join(d, u["id"] + ".replay.json")
        json.dump({"property": prop, "unit": u["id"], "engine": "V", "functions_under_contract": u["fns"],
                   "failed_obligations": ur.failed, "woven_file": r.get("file"),
                   "verifier_output": r.get("raw", "")[-6000:], "native_outcome": "unavailable",
                   "note": "Verus gives no counterexample; see witness_unit for a Kani witness if one exists",
                   "witness_unit": u.get("witness_unit"), "repo_head": repo_head()}, open(path, "w"), indent=1)
        ur.replay_path = path
        ur.native = "unavailable"
    else:
        ur.status = "undecided"
        ur.reason = "tool limit: " + r.get("message", r["status"])[:800]


# ----------------------------------------------------------------------------- engine KW (woven text, standalone Kani)
def run_kw(prop, units, jobs, results, native_replay=True):
    by_spec = {}
    for u in units:
        by_spec.setdefault(u["spec"], []).append(u)
    for spec, us in by_spec.items():
        parsed, info = KW.run_units(spec, us, os.path.join(BUILD, "kaniw"), jobs=jobs)
        for u in us:
            ur = UnitResult(u)
            results[u["id"]] = ur
            ur.backend = "kani-0.68 (standalone, woven text)/cbmc-6.11/cadical"
            ur.detail["weave"] = info.get("weave_report", {})
            ur.detail["woven_file"] = info.get("file")
            if parsed is None:
                ur.status = "undecided"
                ur.reason = "lost anchor (weave): " + info.get("message", "")
                continue
            hr = parsed[u["harness"]]
            ur.time_s = hr.duration_s
            ur.covers = hr.covers
            if not hr.present:
                ur.status = "undecided"
                ur.reason = "no verdict from standalone Kani (woven text rejected / lost anchor): " + info.get("log", "")[-600:]
                continue
            ur.obligations, ur.discharged = hr.n_checks, hr.n_passed
            ur.samples = [fmt_check(c) for c in hr.checks if c.get("category") != "cover" and c.get("status") == "Success"][:2]
            if hr.failed:
                ur.status = "violation"
                ur.failed = [fmt_check(c) for c in hr.failed]
                ur.reason = "failed obligation(s) on the woven text: " + "; ".join(c["description"] for c in ur.failed[:3])
                d = os.path.join(REPLAY, prop)
                os.makedirs(d, exist_ok=True)
                path = os.path.join(d, u["id"] + ".replay.json")
                json.dump({"property": prop, "unit": u["id"], "engine": "KW", "harness": u["harness"], "functions_under_contract": u["fns"],
                           "failed_obligations": ur.failed, "woven_file": info.get("file"), "weave_report": info.get("weave_report"),
                           "native_outcome": "unavailable", "verifier_output": info.get("log", ""), "repo_head": repo_head(),
                           "note": "the counterexample is over the woven integer function; the operands' bitvec load/store is dropped (trusted)"},
                          open(path, "w"), indent=1)
                ur.replay_path = path
                ur.native = "unavailable"
                if native_replay and u.get("native_template"):
                    try:
                        kw_native_replay(u, info.get("file"), path, ur)
                    except Exception as e:  # replay problems never turn into alarms or crashes
                        ur.native = "unavailable"
            elif hr.status != "success" or hr.tool_failed or hr.undetermined:
                ur.status = "undecided"
                ur.reason = "tool limit: harness status %s (timeout %ss)" % (hr.status, info.get("timeout"))
            elif hr.n_checks == 0 or any(st != "Satisfied" for _, st in hr.covers) or len(hr.covers) < u.get("min_covers", 1):
                ur.status = "undecided"
                ur.reason = "vacuous: zero obligations or cover not satisfied"
            else:
                ur.status = "discharged"


def kw_native_replay(u, woven_file, replay_path, ur):
    """Counterexample of a woven-text unit -> concrete operands (standalone Kani concrete playback, print mode) ->
    a native test on the REAL types generated from the unit's template -> cargo kani playback."""
    outdir = os.path.dirname(woven_file)
    p = subprocess.run(["kani", woven_file, "-Z", "concrete-playback", "-Z", "unstable-options", "--concrete-playback=print", "--exact", "--harness", u["harness"],
                        "--harness-timeout", str(u.get("timeout", 600))], cwd=outdir, stdout=subprocess.PIPE, stderr=subprocess.STDOUT,
                       text=True, env=K.env())
    tests = [t for t in re.findall(r"```\s*\n(.*?)```", p.stdout, re.S) if "#[test]" in t]
    noncover = [t for t in tests if not re.search(r"Check for `cover`", t)]
    if not (noncover or tests):
        return
    vals = [int(v) for v in re.findall(r"^\s*// (\d+)[a-z]*\s*$", (noncover or tests)[0], re.M)]
    vals = (vals + [0, 0, 0])[:3]
    t = u["native_template"]
    text = open(os.path.join(VERIF, "kani", "native", t["file"])).read()
    text = text.replace("__TYPE__", t["type"]).replace("__BITS__", str(t["bits"]))
    for k, name in enumerate(("__X__", "__Y__", "__Z__")):
        text = text.replace(name, str(vals[k]))
    ok, out = native_test(t["module"], t["name"], text)
    rec = json.load(open(replay_path))
    rec.update(concrete_values=vals, native_test=text, native_outcome=ok, native_output=out[-2500:])
    json.dump(rec, open(replay_path, "w"), indent=1)
    ur.native = ok


# ----------------------------------------------------------------------------- PY cross-checks (not counted)
def run_py(prop, u, results, native_replay=True):
    import crosschecks
    ur = UnitResult(u)
    results[u["id"]] = ur
    t0 = time.time()
    try:
        facts, n = getattr(crosschecks, u["func"])()
    except Exception as e:  # a broken cross-check is undecided, never an alarm
        facts, n = [(None, "cross-check crashed: %r" % (e,), "crash", None)], 0
    ur.backend = "python3 (cross-check of a trusted mathematical fact about literals read from the source; not counted as discharged)"
    ur.obligations = 0
    ur.discharged = 0
    ur.detail["crosscheck"] = [{"fact": m, "ok": ok, "about": about} for ok, m, about, _ in facts]
    ur.detail["facts_checked"] = n
    ur.samples = [{"description": m, "function": about, "category": "crosscheck", "location": u.get("where", "")} for ok, m, about, _ in facts if ok][:3]
    bad = [f for f in facts if f[0] is False]
    und = [f for f in facts if f[0] is None]
    if bad:
        ur.status = "violation"
        ur.failed = [{"description": m, "function": about, "category": "crosscheck", "location": u.get("where", "")} for ok, m, about, _ in bad]
        ur.reason = "; ".join(m for _, m, _, _ in bad)
        d = os.path.join(REPLAY, prop)
        os.makedirs(d, exist_ok=True)
        path = os.path.join(d, u["id"] + ".replay.json")
        recs = []
        allrep = True
        for ok, m, about, rep in bad:
            rec = {"failed_obligation": m, "about": about, "native_outcome": "unavailable"}
            if rep and native_replay:
                o, out = native_test(rep["module"], rep["test_name"], rep["test_text"])
                rec.update(native_outcome=o, native_test=rep["test_text"], inputs=rep.get("inputs"), native_output=out[-2500:])
            elif rep:
                rec.update(native_test=rep["test_text"], inputs=rep.get("inputs"))
            if rec["native_outcome"] != "reproduced":
                allrep = False
            recs.append(rec)
        json.dump({"property": prop, "unit": u["id"], "engine": "PY", "failed_obligations": ur.failed, "replays": recs,
                   "repo_head": repo_head()}, open(path, "w"), indent=1)
        ur.replay_path = path
        ur.native = "reproduced" if allrep else "unavailable"
    elif und:
        ur.status = "undecided"
        ur.reason = "; ".join(m for _, m, _, _ in und)
    else:
        ur.status = "discharged"
    ur.time_s = time.time() - t0


def native_test(module, test_name, test_text):
    """Run a hand-generated #[test] natively inside the real crate through the playback include of `module`."""
    d = ensure_playback_stubs()
    clear_playback()
    open(os.path.join(d, module + ".rs"), "w").write(test_text + "\n")
    env = K.env()
    env["CARGO_TARGET_DIR"] = os.path.join(BUILD, "kani-playback")
    cmd = ["cargo", "kani", "playback", "-Z", "concrete-playback", "-Z", "function-contracts", "-Z", "stubbing",
           "--lib", "--features", K.FEATURES, "--", test_name]
    try:
        p = subprocess.run(cmd, cwd=K.CRATE, env=env, stdout=subprocess.PIPE, stderr=subprocess.STDOUT, text=True, timeout=3600)
        out = p.stdout
    except subprocess.TimeoutExpired:
        out = "[runner] native test timed out"
    finally:
        clear_playback()
    if re.search(r"test .*%s \.\.\. FAILED" % test_name, out):
        return "reproduced", out
    if re.search(r"test .*%s \.\.\. ok" % test_name, out):
        return "not-reproduced", out
    return "unavailable", out


# ----------------------------------------------------------------------------- evidence
def write_evidence(prop, tier, units, results, wall, seed, viol, known_hits):
    os.makedirs(EVID, exist_ok=True)
    P = PROPS[prop]
    complete = [u for u in units if u["label"] in ("complete", "complete-for-instance")]
    bounded = [u for u in units if u["label"].startswith("bounded")]
    cross = [u for u in units if u["label"] == "crosscheck"]
    obl = sum(results[u["id"]].obligations for u in complete if u["id"] in results)
    dis = sum(results[u["id"]].discharged for u in complete if u["id"] in results and results[u["id"]].status == "discharged")
    dis += sum(results[u["id"]].discharged for u in complete if u["id"] in results and results[u["id"]].status != "discharged")
    files = set()
    for u in units:
        if u["engine"] == "K":
            files.add(os.path.join(VERIF, "kani", u["file"] + ".rs"))
        elif u["engine"] in ("V", "KW"):
            files.add(os.path.join(VERIF, "verus", u["spec"] + ".py"))
            wf = results[u["id"]].detail.get("woven_file") if u["id"] in results else None
            if wf:
                files.add(wf)
    assumptions = list(P.get("assumptions", []))
    for u in units:
        for a in u.get("assumes", []):
            assumptions.append("%s: %s" % (u["id"], a))
    assumptions += ["scan: " + s for s in scan_assumptions(sorted(files))]

    def unit_rec(u):
        r = results.get(u["id"])
        rec = {"unit": u["id"], "engine": u["engine"], "label": u["label"], "bound": u.get("bound"),
               "functions_under_contract": u["fns"], "clause": u.get("clause", "")}
        if r:
            rec.update({"status": r.status, "obligations": r.obligations, "discharged": r.discharged,
                        "solver_time_s": round(r.time_s, 3), "backend": r.backend,
                        "covers": [{"cover": d, "status": s} for d, s in r.covers], "reason": r.reason})
            if r.detail.get("weave"):
                rec["weave"] = r.detail["weave"]
            if r.detail.get("crosscheck"):
                rec["crosscheck"] = r.detail["crosscheck"]
        else:
            rec["status"] = "not-run"
        return rec

    samples = []
    for u in units:
        r = results.get(u["id"])
        if r:
            for s in r.samples[:2]:
                samples.append({"unit": u["id"], "obligation": s})
    level = P["level"]
    cov = {
        "obligations": obl,
        "discharged": dis if viol == 0 else sum(results[u["id"]].discharged for u in complete if u["id"] in results),
        "checker_cmd": "cd %s && IPA_VERIF_DIR=%s %s --export-json <f> --exact --harness <h>...   |   verus <woven>.rs --output-json --time"
                       % (K.CRATE, VERIF, " ".join(K.base_cmd())),
        "trusted_base": P.get("trusted_base", []) + [
            "Kani 0.68.0 + CBMC 6.11.0 + SAT back end (cadical/kissat); Verus 0.2026.09.13 + Z3",
            "rustc MIR of the Kani toolchain (nightly) vs the repository's stable toolchain: same source, different compiler",
        ],
        "explanation": P.get("explanation", ""),
        "units": [unit_rec(u) for u in units],
        "complete_units": [u["id"] for u in complete],
        "bounded_units": [{"unit": u["id"], "bound": u.get("bound"), "checks": results[u["id"]].obligations if u["id"] in results else 0,
                           "status": results[u["id"]].status if u["id"] in results else "not-run"} for u in bounded],
        "crosscheck_units": [u["id"] for u in cross],
        "functions_under_contract": sorted({f for u in units for f in u["fns"]}),
        "backends": sorted({results[u["id"]].backend for u in units if u["id"] in results}),
        "solver_time_s": round(sum(results[u["id"]].time_s for u in units if u["id"] in results), 3),
        "samples": samples[:12] or [{"note": "no obligations recorded"}],
        "undecided_clauses": P.get("undecided", []),
        "decided_clauses": P.get("decided", []),
        "known_findings_matched": known_hits,
        "repo_head": repo_head(),
        "exhaustive": False,
    }
    # the generic keys are filled too (measured): evaluations = obligations of all units incl. bounded
    allobl = sum(results[u["id"]].obligations for u in units if u["id"] in results)
    cov["evaluations"] = allobl
    cov["distinct_nontrivial"] = len({(s["description"], s["location"]) for u in units if u["id"] in results
                                      for s in results[u["id"]].samples}) if allobl else 0
    cov["rule"] = ("one evaluation = one verifier obligation (CBMC check or Verus function obligation) generated from the "
                   "current /repo source; distinct_nontrivial counts only the distinct sampled obligations listed")
    ev = {"property_id": prop, "tier": tier, "seed": seed, "level": level, "coverage": cov,
          "assumptions": assumptions, "wall_s": round(wall, 2), "violations": viol}
    json.dump(ev, open(os.path.join(EVID, prop + ".json"), "w"), indent=1)


# ----------------------------------------------------------------------------- main entry points
def check(prop, tier, only_units, jobs, native_replay=True):
    t0 = time.time()
    seed = int(os.environ.get("VERIF_SEED", "0") or 0)
    if prop not in PROPS:
        print("property %s is not claimed by this machinery (see MANIFEST.json not_applicable)" % prop)
        return 2
    units = [u for u in UNITS if u["prop"] == prop and (tier == "thorough" or u["tier"] == "quick")]
    if only_units:
        units = [u for u in UNITS if u["prop"] == prop and u["id"] in only_units]
    if not units:
        print("no units selected for %s" % prop)
        return 2
    results = {}
    ku = [u for u in units if u["engine"] == "K"]
    if ku:
        run_k(prop, tier, ku, jobs, results, native_replay)
    kw = [u for u in units if u["engine"] == "KW"]
    if kw:
        run_kw(prop, kw, jobs, results, native_replay)
    for u in units:
        if u["engine"] == "V":
            run_v(prop, u, results)
        elif u["engine"] == "PY":
            run_py(prop, u, results, native_replay)
    # verdict
    kf = [k for k in known_findings() if k["prop"] == prop]
    viol_lines, known_hits, undecided = [], [], []
    for u in units:
        r = results[u["id"]]
        print("[%s] %-34s %-11s %-22s obligations=%d discharged=%d t=%.1fs %s" % (
            prop, u["id"], r.status.upper(), u["label"] + ("(" + u["bound"] + ")" if u.get("bound") else ""),
            r.obligations, r.discharged, r.time_s, ("- " + r.reason[:300]) if r.status != "discharged" else ""))
        if r.status == "undecided":
            undecided.append(u["id"])
        if r.status == "violation":
            unmatched = []
            for f in r.failed:
                hit = None
                for k in kf:
                    if k["unit"] == u["id"] and (k["match"] in f["description"] or k["match"] in f["function"]):
                        hit = k
                        break
                if hit:
                    if hit not in known_hits:
                        known_hits.append(hit)
                else:
                    unmatched.append(f)
            if unmatched:
                suffix = "" if r.native == "reproduced" else " no-failing-input-found"
                viol_lines.append("VIOLATION property=%s replay=%s%s" % (prop, r.replay_path, suffix))
                print("  failed obligation: " + "; ".join("%s [%s @ %s]" % (f["description"], f["function"], f["location"])
                                                       for f in unmatched[:4]))
                print("  native replay: %s" % r.native)
    for k in known_hits:
        print("KNOWN-FINDING: property=%s %s" % (prop, k["text"]))
    wall = time.time() - t0
    write_evidence(prop, tier, units, results, wall, seed, len(viol_lines),
                   ["%s: %s" % (k["unit"], k["text"]) for k in known_hits])
    for l in viol_lines:
        print(l)
    if viol_lines:
        return 1
    if undecided:
        print("UNDECIDED property=%s units=%s (tool limit / lost anchor / vacuous; not an alarm)" % (prop, ",".join(undecided)))
        return 2
    print("OK property=%s tier=%s units=%d wall=%.1fs" % (prop, tier, len(units), wall))
    return 0


def replay(prop, path):
    """Re-executes a stored replay natively against the *current* /repo: exit 1 if the failure reproduces."""
    rec = json.load(open(path))
    u = next((x for x in UNITS if x["id"] == rec["unit"]), None)
    if not u:
        print("unknown unit in replay file")
        return 2
    print("replaying %s / %s: %s" % (prop, u["id"], "; ".join(f["description"] for f in rec.get("failed_obligations", []))[:400]))
    ok, out = None, ""
    if rec.get("engine") == "K" and rec.get("concrete_playback_test"):
        ok, out = native_playback(u, rec["concrete_playback_test"])
    elif rec.get("engine") == "K" and rec.get("native_test") and u.get("native_test"):
        ok, out = native_test(u["file"], u["native_test"]["name"], rec["native_test"])
    elif rec.get("engine") == "PY":
        outcomes = []
        for r in rec.get("replays", []):
            m = re.search(r"fn (\w+)\(", r.get("native_test", "") or "")
            if m:
                o, t = native_test("galois_field", m.group(1), r["native_test"])
                outcomes.append(o)
                out += t[-1200:]
        ok = "reproduced" if "reproduced" in outcomes else ("not-reproduced" if outcomes else None)
    if ok is None:
        # no concrete input stored (Verus units, timeouts): re-run the unit itself on the current tree
        return check(prop, "thorough", [u["id"]], 4)
    print(out[-2500:])
    print("native outcome: %s" % ok)
    if ok == "reproduced":
        print("VIOLATION property=%s replay=%s" % (prop, path))
        return 1
    return 0 if ok == "not-reproduced" else 2


def setup():
    """MANIFEST.setup_cmd: warm the Kani build of the real crate (dependencies + ipa-core) offline."""
    os.makedirs(os.path.join(BUILD, "logs"), exist_ok=True)
    ensure_playback_stubs()
    cmd = K.base_cmd() + ["--only-codegen"]
    p = subprocess.run(cmd, cwd=K.CRATE, env=K.env(), stdout=open(os.path.join(BUILD, "logs", "setup.log"), "w"),
                       stderr=subprocess.STDOUT)
    print("setup: cargo kani --only-codegen exit %d (log: .build/logs/setup.log)" % p.returncode)
    v = sh(["verus", "--version"])
    print("setup: " + v.stdout.strip().splitlines()[0] if v.stdout.strip() else "setup: verus not found")
    return 0 if p.returncode == 0 else 1


def list_units():
    for u in UNITS:
        print("%-4s %-36s %s %-9s %-22s %s" % (u["prop"], u["id"], u["engine"], u["tier"], u["label"], ",".join(u["fns"])[:90]))
    return 0
