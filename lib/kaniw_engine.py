"""Engine KW: a weave spec (verus/<spec>.py) extracts integer-only loops from the real source into a standalone
file, which is checked with standalone Kani (`kani file.rs`). Same reporting rules as engine V: the weave report lists
what is kept verbatim / substituted / dropped; a lost anchor is exit 2."""
import json
import os
import subprocess
import time

import kani_engine as K
from verus_engine import WeaveError, load_spec, REPO


def run_units(spec, units, outdir, jobs=8):
    """Weave once, run all harnesses of `units` in one standalone-kani invocation.
    Returns (results: harness -> HarnessResult or None, info)."""
    os.makedirs(outdir, exist_ok=True)
    t0 = time.time()
    try:
        wr = load_spec(spec).build(REPO, units[0])
    except WeaveError as e:
        return None, {"status": "weave-failed", "message": str(e)}
    except FileNotFoundError as e:
        return None, {"status": "weave-failed", "message": "source file missing: %s" % e}
    path = os.path.join(outdir, spec + ".rs")
    open(path, "w").write(wr.text)
    js = os.path.join(outdir, spec + ".json")
    if os.path.exists(js):
        os.remove(js)
    tmo = max(u.get("timeout", 600) for u in units)
    cmd = ["kani", path, "-Z", "unstable-options", "--export-json", js, "--output-format=terse", "--exact",
           "--harness-timeout", str(tmo), "-j", str(jobs)]
    for u in units:
        cmd += ["--harness", u["harness"]]
    log = os.path.join(outdir, spec + ".log")
    with open(log, "w") as lf:
        lf.write("$ " + " ".join(cmd) + "\n")
        lf.flush()
        subprocess.run(cmd, cwd=outdir, stdout=lf, stderr=subprocess.STDOUT, env=K.env(), preexec_fn=K._limit_memory)
    data = None
    if os.path.exists(js):
        try:
            data = json.load(open(js))
        except Exception:
            data = None
    text = open(log, errors="replace").read()
    hs = [u["harness"] for u in units]
    return K.parse(data, hs, text), {"status": "ran", "file": path, "weave_report": wr.report, "log": text[-2500:],
                                     "time_s": time.time() - t0, "timeout": tmo}
