#!/usr/bin/env python3
"""Regenerates /verif/MANIFEST.json from the unit table (lib/units.py) so that the claimed level, the scoping notes
and the unit list never drift apart. Run after editing units.py."""
import json
import os
import subprocess
import sys

sys.path.insert(0, os.path.dirname(os.path.abspath(__file__)))
from units import PROPS, UNITS  # noqa: E402

VERIF = os.path.dirname(os.path.dirname(os.path.abspath(__file__)))

NA = {
    "C02": "one-helper tampering across a whole query: every listed mechanism is an interactive async protocol over the gateway; no function-level contract expresses 'some honest helper aborts or the result is unchanged'; the validator's Drop guard needs a live context. Neither Kani (no async multi-party execution; tracing/tokio ICE) nor Verus (cannot import the crate's async/trait stack) reaches it.",
    "C04": "MAC-checked arithmetic: mac_multiply, Malicious::validate, malicious_reveal, check_zero inline their algebra between send/receive on concrete gateway types; soundness is probabilistic (1/|F|), which a deductive contract cannot state; the one local function (MaliciousAccumulator::compute_dot_product_contribution: three-party dot-product identity) was put under a Kani harness and does not close even over the 31-element field (polynomial identity in 6 variables, 15 min timeout); the batch record-id arithmetic is reported under C06.",
    "C05": "shuffle: three-party, PRSS-keyed permutation plus cross-shard resharding (async); the per-row field packing (join_fields/split_fields) is bitvec range copying + GenericArray, which aborts CBMC (bits2expr invariant) and is outside Verus' subset.",
    "C07": "secure circuits: generic in C: Context and reach the network only through SecureMul::multiply; a mock plaintext context compiles against the real trait stack but the SAT instance does not close even for 2-bit operands (async-trait boxing + BitDecomposed heap; measured 10-20 min timeouts); multiplication, reveal, share conversion, PRF and aggregation are interactive.",
    "C16": "batch validation gating: Batcher's synchronous core (is_ready_for_validation, get_batch) embeds tracing events and a tokio::sync::watch channel. The tracing events crash kani-compiler (ICE intrinsics.rs:243); stubbing the four tracing entry points makes it compile (probe kani/batcher.rs), but a single call on a two-batch Batcher exhausts memory in CBMC (measured: out of memory on a 62 GB machine with kissat, 35 min) because of the real watch channel (Arc, Notify lists), BitVec and VecDeque; Verus cannot import either crate; the async half (waiting for the verdict) is a schedule property.",
    "C19": "resharding: reshard_try_stream is an async send/receive loop over shard channels; order agreement across helpers is a schedule property; no synchronous core function exists to put under contract.",
    "C20": "HTTP authentication: the property quantifies over the route table of an axum Router; a contract on HelperAuthentication::call does not decide which routes are behind the layer, and TLS identity extraction lives in rustls/axum-server.",
}

LEVEL_TEXT = {
    "C08": "function contracts on the real prime-field operations (in-place Kani contracts + full-domain harnesses) and a Verus proof of the extended-Euclid inverse woven from the real loop, discharged for every input; accumulators, share arithmetic, Boolean and constants on top, modularly",
    "C09": "bit-exact contracts on the layout-changing functions (transposes, index packing, PRSS index encoding) for all inputs, and the accept/reject decision of prime-field decoding woven into Verus; scoped: GenericArray-based (de)serialisers are out of reach of both tools",
    "C03": "the algebraic identity the proof system rests on, checked on the real lookup tables with the real field arithmetic for all 64 gate assignments, plus index layout and recursion-depth constants; scoped to mechanism 1",
    "C14": "Verus proof, for every capacity, of the ring buffer's cursor functions against the abstract queue length (real bodies woven verbatim); contents/FIFO order only bounded (capacity <= 8) with Kani; interleavings undecided",
    "C18": "contracts on the status meet and the allowed-transition table, discharged by Kani/CBMC for every argument value (loop-free, full domain)",
    "C06": "index arithmetic contracts (injective packing, exact conversions, disjoint batch record ids) for all inputs; scoped: the cryptographic clauses are undecided",
    "C12": "parameter validators accept exactly the documented ranges (all non-NaN floats, bit-precise) and the noise-to-share mapping is exact at widths 8/16/32 under the sampler's assumed range contract; probability law undecided",
    "C13": "Verus proof of the capacity/read-size alignment rule for all powers of two / record sizes / read sizes, woven from the real function under declared substitutions; Kani contracts on the power-of-two helpers; Kani grid on the unsubstituted function as bounded cross-check",
    "C11": "routing contract of shard_picker for all 2^128 tags and shard counts 1..=8",
    "C10": "bounded stand-in: no-panic (totality) of the real report/info parsers at the decision-boundary lengths with symbolic contents; not a proof for all lengths; authenticity clause undecided",
    "C15": "bounded stand-in: every completion order of the real SequentialFutures::poll_next for n <= 3 futures, window <= 2",
    "C17": "bounded stand-in: the fixed-width chunker on every slice content for len <= 5 (N=2) / len <= 7 (N=3)",
    "C01": "only the pairs-only grouping mechanism (MatchEntry state machine: complete; BTreeMap grouping: bounded); the end-to-end equality is NOT established",
}


def main():
    heads = subprocess.run(["git", "-C", "/repo", "log", "--format=%h %s"], stdout=subprocess.PIPE, text=True).stdout.splitlines()
    hook_commits = [l.split()[0] for l in heads if l.split(" ", 1)[1].startswith("verif hooks")]
    checks = []
    for pid in sorted(PROPS):
        P = PROPS[pid]
        us = [u for u in UNITS if u["prop"] == pid]
        engines = sorted({u["engine"] for u in us})
        bounded = [u["id"] for u in us if u["label"].startswith("bounded")]
        note = ("decided: " + "; ".join(P["decided"]) + " || NOT decided: " + "; ".join(P["undecided"])
                + (" || bounded units (never counted as proved): " + ", ".join(bounded) if bounded else "")
                + " || trusted: Kani 0.68/CBMC 6.11/SAT+z3, Verus/Z3, " + "; ".join(P.get("trusted_base", []) + P.get("assumptions", [])))
        checks.append({
            "property_id": pid,
            "quick_cmd": "./check %s --tier quick" % pid,
            "thorough_cmd": "./check %s --tier thorough" % pid,
            "evidence_file": "/verif/evidence/%s.json" % pid,
            "replay_cmd_template": "./check %s --replay {path}" % pid,
            "engine": "+".join(engines),
            "level_claimed": {"category": P["level"], "text": LEVEL_TEXT[pid], "design_ref": "DESIGN.md section 5, " + pid},
            "level_note": note[:6000],
            "technique": "contract-based deductive verification of the real code: " + {
                "K": "Kani function contracts / full-domain harnesses in place",
                "K+PY+V": "Kani function contracts in place + Verus on woven real functions",
                "K+V": "Kani function contracts in place + Verus on woven real functions",
                "K+KW+PY+V": "Kani function contracts in place + Verus and standalone Kani on functions woven from the real source",
                "V": "Verus on woven real functions"}.get("+".join(engines), "Kani + Verus")
                + (" (bounded Kani harnesses only: stand-in, not a proof)" if P["level"] == "other" else ""),
        })
    m = {
        "version": 1,
        "setup_cmd": "./check --setup",
        "hooks": {
            "guard": "kani",
            "enable": "cfg(kani) is set only by the Kani compiler: cd /repo/ipa-core && IPA_VERIF_DIR=/verif cargo kani --lib --features 'cli test-fixture' -Z function-contracts -Z stubbing --no-assert-contracts --harness <h>. Hooks: `#[cfg(kani)] mod verif_kani { include!(concat!(env!(\"IPA_VERIF_DIR\"), \"/kani/<m>.rs\")); }` child modules, `#[cfg_attr(kani, kani::requires/ensures(..))]` contract attributes on the prime-field operations, and cargo::rustc-check-cfg=cfg(kani) in build.rs. Engine V needs no hook (it reads the source text).",
            "baseline_off_cmd": "cd /repo && (cargo nextest run --workspace --no-fail-fast --test-threads 8 --offline || cargo test --workspace --no-fail-fast --offline)",
            "source_commits": hook_commits,
            "add_only": True,
        },
        "engines": [
            {"name": "K", "path": "lib/kani_engine.py", "serves_properties": sorted({u["prop"] for u in UNITS if u["engine"] == "K"}),
             "kind_free_text": "Kani 0.68 / CBMC 6.11 function contracts (proof_for_contract, stub_verified) and full-domain or bounded harnesses on the real crate, in place"},
            {"name": "V", "path": "lib/verus_engine.py", "serves_properties": sorted({u["prop"] for u in UNITS if u["engine"] == "V"}),
             "kind_free_text": "Verus 0.2026.09.13 on functions woven mechanically from the current source on every run (verus/*.py weave specs; substitutions declared and counted)"},
            {"name": "KW", "path": "lib/kaniw_engine.py", "serves_properties": sorted({u["prop"] for u in UNITS if u["engine"] == "KW"}),
             "kind_free_text": "standalone Kani on integer-only loops woven mechanically from the current source (verus/gf_mul.py: portable clmul + GF reduction loop); same weave rules as engine V"},
            {"name": "PY", "path": "lib/crosschecks.py", "serves_properties": ["C08"],
             "kind_free_text": "cross-check of trusted mathematical facts (primality / GF(2) irreducibility) about literals read from the source; never counted as discharged"},
        ],
        "checks": checks,
        "notes": "exit 0 = all obligations of the selected units discharged; exit 1 = VIOLATION line (a property obligation failed; counterexample replayed natively with cargo kani playback where one exists); exit 2 = undecided (lost anchor, tool limit, vacuous) and is never an alarm. KNOWN_FINDINGS.txt lists fixed findings.",
        "not_applicable": [{"property_id": k, "reason": v} for k, v in sorted(NA.items())],
    }
    json.dump(m, open(os.path.join(VERIF, "MANIFEST.json"), "w"), indent=1)
    print("MANIFEST.json: %d checks, %d not_applicable, hook commits %s" % (len(checks), len(NA), hook_commits))


if __name__ == "__main__":
    main()
